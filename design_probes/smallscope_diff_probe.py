import itertools, fixedint, sys
from architecture_simulator.simulation.riscv_simulation import RiscvSimulation
from architecture_simulator.isa.riscv.rv32i_instructions import *
B=2**14
def alpha():
    return [
     lambda: ADDI(1,0,1), lambda: ADDI(2,1,1), lambda: ADD(1,1,2), lambda: ADD(3,2,1),
     lambda: LW(1,8,0), lambda: SW(8,1,0), lambda: SW(8,2,4), lambda: LW(2,8,4),
     lambda: BEQ(1,2,8), lambda: BNE(1,0,8), lambda: JAL(0,8,0), lambda: ECALL(),
     lambda: ADDI(10,1,0), lambda: BEQ(0,0,-4), lambda: JALR(3,1,4), lambda: ADDI(17,2,0),
    ]
def run(mode, idxs):
    s=RiscvSimulation(mode=mode)
    A=alpha()
    s.state.instruction_memory.write_instructions([A[i]() for i in idxs])
    r=s.state.register_file.registers
    r[8]=fixedint.UInt32(B); r[17]=fixedint.UInt32(1); r[10]=fixedint.UInt32(7); r[2]=fixedint.UInt32(1)
    n=0; exc=None
    try:
        while not s.is_done() and n<300:
            s.step(); n+=1
    except Exception as e:
        exc=(type(e).__name__, getattr(e,'address',None))
    pm=s.state.performance_metrics
    mem=tuple(sorted((k,int(v)) for k,v in s.state.memory.memory_file.items()))
    return dict(regs=[int(x) for x in r], out=s.state.output, exit=s.state.exit_code, exc=exc, ic=pm.instruction_count if exc is None else None, br=pm.branch_count if exc is None else None, mem=mem, timeout=(n>=300))
bad=0; tot=0
L=int(sys.argv[1])
for n in range(1,L+1):
    for idxs in itertools.product(range(16), repeat=n):
        a=run("single_stage_pipeline", idxs)
        if a['timeout']: continue
        b=run("five_stage_pipeline", idxs)
        tot+=1
        if a!=b:
            bad+=1
            if bad<=12:
                print("DIFF", idxs); 
                for k in a:
                    if a[k]!=b[k]: print("   ",k,a[k],"|",b[k])
print("total",tot,"bad",bad)
