# throwaway prototype: closed-form schedule of the documented pipeline, checked against the implementation
import random, fixedint, sys
from architecture_simulator.simulation.riscv_simulation import RiscvSimulation
from architecture_simulator.isa.riscv.rv32i_instructions import *
from architecture_simulator.isa.riscv.instruction_types import *
B=2**14
def srcs(ins):
    if isinstance(ins,ECALL): return set()
    if isinstance(ins,(RTypeInstruction,BTypeInstruction,STypeInstruction)): return {ins.rs1,ins.rs2}-{0}
    if isinstance(ins,ITypeInstruction): return {ins.rs1}-{0}
    return set()
def dst(ins):
    if isinstance(ins,(ECALL,BTypeInstruction,STypeInstruction)): return 0
    return ins.rd
def dyn_stream(mk, init):
    s=RiscvSimulation(); s.state.instruction_memory.write_instructions(mk())
    for k,v in init.items(): s.state.register_file.registers[k]=fixedint.UInt32(v)
    out=[]; n=0
    try:
        while not s.is_done() and n<300:
            pc=s.state.program_counter; ins=s.state.instruction_memory.read_instruction(pc)
            bc=s.state.performance_metrics.branch_count
            s.step(); n+=1
            red = isinstance(ins,(JAL,JALR)) or s.state.performance_metrics.branch_count!=bc
            out.append((pc,ins,red,s.state.exit_code is not None))
    except Exception as e:
        return None
    if n>=300: return None
    return out
def schedule(D):
    F=[];Dc=[];X=[];M=[];W=[]
    for i,(pc,ins,red,ex) in enumerate(D):
        if i==0: f=1
        elif D[i-1][2]: f=M[i-1]+1
        else: f=Dc[i-1]
        dc=max(f+1, X[i-1] if i>0 else 0)
        hz=any(dst(D[j][1]) in srcs(ins) and (X[j]==dc or M[j]==dc) for j in range(max(0,i-4),i))
        x=max(dc+(3 if hz else 1), M[i-1] if i>0 and not D[i-1][2] else 0)
        if isinstance(ins,ECALL) and any(M[j]==x or W[j]==x for j in range(max(0,i-4),i)): m=x+3
        else: m=x+1
        F.append(f);Dc.append(dc);X.append(x);M.append(m);W.append(m+1)
        if ex: break
    return W
def impl(mk, init):
    s=RiscvSimulation(mode="five_stage_pipeline"); s.state.instruction_memory.write_instructions(mk())
    for k,v in init.items(): s.state.register_file.registers[k]=fixedint.UInt32(v)
    ret=[]; c=0
    while not s.is_done() and c<3000:
        s.step(); c+=1
        a=s.state.pipeline.pipeline_registers[4].address_of_instruction
        if a is not None: ret.append((a,c))
    return ret, s.state.performance_metrics.cycles
def rnd_prog(rng, n):
    regs=[0,1,2,3,10,17]
    def r(): return rng.choice(regs)
    P=[]
    for k in range(n):
        t=rng.random()
        if t<0.35: P.append(("ADDI",r(),r(),rng.choice([0,1,-1,5])))
        elif t<0.5: P.append(("ADD",r(),r(),r()))
        elif t<0.6: P.append(("LW",r(),8,rng.choice([0,4,8])))
        elif t<0.7: P.append(("SW",8,r(),rng.choice([0,4,8])))
        elif t<0.82: P.append((rng.choice(["BEQ","BNE","BLT"]),r(),r(),4*rng.randint(-3,4)))
        elif t<0.88: P.append(("JAL",r(),4*rng.randint(-2,4),0))
        elif t<0.92: P.append(("JALR",r(),r(),rng.choice([0,4,8])))
        else: P.append(("ECALL",))
    def mk(): return [globals()[p[0]](*p[1:]) for p in P]
    return P, mk
rng=random.Random(int(sys.argv[1])); bad=0; tot=0; skipped=0
for it in range(int(sys.argv[2])):
    P,mk=rnd_prog(rng, rng.randint(1,14))
    init={8:B,17:rng.choice([1,1,1,10,93,5]),10:rng.choice([0,7]),1:rng.choice([0,1,4,8]),2:rng.choice([0,1,12]),3:rng.choice([0,16])}
    D=dyn_stream(mk,init)
    if D is None: skipped+=1; continue
    W=schedule(D)
    ret,cyc=impl(mk,init)
    exp=[(D[i][0],W[i]) for i in range(len(W))]
    tot+=1
    if exp!=ret or (W and cyc!=W[-1]) or (not W and cyc!=0):
        bad+=1
        if bad<=5:
            print("MISMATCH",P,init); print(" exp",exp); print(" got",ret,cyc)
print("tot",tot,"bad",bad,"skipped",skipped)
