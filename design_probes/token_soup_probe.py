import random, sys, collections
from architecture_simulator.simulation.riscv_simulation import RiscvSimulation
from architecture_simulator.simulation.toy_simulation import ToySimulation
from architecture_simulator.isa.parser_exceptions import ParserException, MemorySizeException
from architecture_simulator.uarch.memory.memory import MemoryAddressError
rng=random.Random(int(sys.argv[1]))
RT=["addi","add","lw","sw","beq","jal","jalr","lui","li","la","mv","nop","ecall","ebreak","fence","csrrw","csrrwi","sb","lb","slli","ADD","Li"]
REG=["x0","x1","x31","x32","a0","t0","zero","sp","fp","s11"]
NUM=["0","1","-1","007","-01","0x","0x1F","0b","0b101","0b2","99999999999999999999","-2049","2048","4096","+5","1_0","１２","0xG","00","0x00","-0x8","- 5"]
P=[",","(",")","[","]",":","+",".","#","\"","'"," ","\t"]
D=[".data",".text",".word",".byte",".half",".string",".zero",".foo",".data .text"]
L=["lbl","loop","end","x1y","t0Test","a","_","add","x1","zero","ecall","nop","lbl:","end:","add:","ecall:","nop:","x1:"]
STR=['"abc"','"a#b"','"unterminated','""','"\\""',"'q'"]
def line_r():
    k=rng.random()
    if k<0.5:
        toks=[rng.choice(RT+REG+NUM+P+D+L+STR) for _ in range(rng.randint(1,7))]
        return " ".join(toks) if rng.random()<0.7 else "".join(toks)
    m=rng.choice(RT)
    tmpl=rng.choice(["{m} {r}, {r}, {r}","{m} {r}, {r}, {n}","{m} {r}, {n}({r})","{m} {r}, {l}","{m} {r}, {l}+{n}","{m} {r}, {l}[{n}]","{m} {r}, {l}[{n}], {r}","{l}: {m} {r}, {n}","{l}: .word {n}, {n}","{l}: .zero {n}","{l}: .string {s}","{d}","{l}:","{m}","{m} {r}, {r}, {l}","{m} {r}, {n}, {r}","{m} {r}, {n}, {n}"])
    return tmpl.format(m=m,r=rng.choice(REG),n=rng.choice(NUM),l=rng.choice(L).rstrip(':'),s=rng.choice(STR),d=rng.choice(D))
TT=["STO","LDA","BRZ","ADD","SUB","OR","AND","XOR","NOT","INC","DEC","ZRO","NOP","lda","Nop"]
def line_t():
    k=rng.random()
    if k<0.4:
        return " ".join(rng.choice(TT+NUM+P+D+L) for _ in range(rng.randint(1,5)))
    tmpl=rng.choice(["{m} {n}","{m} {l}","{l}: {m} {n}","{l}: .word {n}, {n}","{l}:","{d}","{m}","{l}: {m}"])
    return tmpl.format(m=rng.choice(TT),n=rng.choice(NUM+["4095","4096","0xFFF","0x1000","65536"]),l=rng.choice(L).rstrip(':'),d=rng.choice(D))
cnt=collections.Counter(); ex={}
for it in range(int(sys.argv[2])):
    for kind,mk,linef in (("rv",RiscvSimulation,line_r),("toy",ToySimulation,line_t)):
        text="\n".join(linef() for _ in range(rng.randint(1,6)))
        s=mk()
        try:
            s.load_program(text); cnt[(kind,"ok")]+=1
        except ParserException as e:
            n=len(text.splitlines())
            okl=isinstance(e.line_number,int) and 1<=e.line_number<=n
            cnt[(kind,"ParserException" if okl else "BADLINE")]+=1
            if not okl: ex.setdefault((kind,"BADLINE"),text)
        except (MemorySizeException,MemoryAddressError) as e:
            cnt[(kind,type(e).__name__)]+=1; ex.setdefault((kind,type(e).__name__),text)
        except Exception as e:
            key=(kind,type(e).__name__, str(e)[:60]); cnt[key]+=1
            if key not in ex or len(text)<len(ex[key]): ex[key]=text
for k,v in sorted(cnt.items(), key=str): print(v,k)
print("---- examples")
for k,v in ex.items(): print(k,"\n   ",repr(v))
