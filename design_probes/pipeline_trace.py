from architecture_simulator.simulation.riscv_simulation import RiscvSimulation
def trace(prog, hz=True, maxc=200, regs=None):
    s = RiscvSimulation(mode="five_stage_pipeline", detect_data_hazards=hz)
    s.load_program(prog)
    if regs:
        import fixedint
        for k,v in regs.items(): s.state.register_file.registers[k]=fixedint.UInt32(v)
    rows=[]
    c=0
    while not s.is_done() and c<maxc:
        try:
            s.step()
        except Exception as e:
            rows.append(("EXC", repr(e))); break
        c+=1
        prs=s.state.pipeline.pipeline_registers
        rows.append((s.state.performance_metrics.cycles, [ (p.address_of_instruction if p.address_of_instruction is not None else '-') for p in prs], s.state.pipeline.stalled, s.state.program_counter, s.state.output))
    for r in rows: print(r)
    pm=s.state.performance_metrics
    print("regs",[int(r) for r in s.state.register_file.registers][:8],"out",repr(s.state.output),"exit",s.state.exit_code,"cyc",pm.cycles,"ic",pm.instruction_count,"stalls",pm.stalls,"flushes",pm.flushes,"br",pm.branch_count,"proc",pm.procedure_count)
if __name__=="__main__":
    import sys
    trace(sys.stdin.read())
