# throwaway: incremental closed-form schedule + versioned register file, hazard detection OFF, vs implementation
import random, fixedint, sys
from architecture_simulator.simulation.riscv_simulation import RiscvSimulation
from architecture_simulator.isa.riscv import rv32i_instructions as R
B=2**14; MASK=0xFFFFFFFF
def sx(v): v&=MASK; return v-(1<<32) if v>>31 else v
def ref(P, init, detect, maxn=300):
    # P: list of tuples; returns retire list [(pc, W)], regs-after-each-cycle dict, final regs, mem, out, exit
    regs=[0]*32
    for k,v in init.items(): regs[k]=v&MASK
    mem={}
    pend=[]   # (W, rd, val) in order
    F=[];D=[];X=[];M=[];W=[];meta=[]
    out="";exitc=None
    pc=0; i=0; redirected=False
    retire=[]
    def rd_at(cycle, r):
        # value of reg r as seen by decode in `cycle` (after WBs with W<=cycle)
        v=regs0[r]
        for (w,d,val) in pend:
            if w<=cycle and d==r: v=val
        return v
    regs0=list(regs)
    fault=None
    while 0<=pc<4*len(P) and pc%4==0 and i<maxn:
        ins=P[pc//4]; op=ins[0]
        if i==0: f=1
        elif redirected: f=M[i-1]+1
        else: f=D[i-1]
        d=max(f+1, X[i-1] if i>0 else 0)
        if op in("ADDI","LW","JALR"): src={ins[2]}-{0}
        elif op=="ADD": src={ins[2],ins[3]}-{0}
        elif op in("BEQ","BNE","BLT"): src={ins[1],ins[2]}-{0}
        elif op=="SW": src={ins[1],ins[2]}-{0}
        else: src=set()
        dst = ins[1] if op in("ADDI","ADD","LW","JAL","JALR") else 0
        hz = detect and any(meta[j][0] and meta[j][0] in src and (X[j]==d or M[j]==d) for j in range(max(0,i-4),i))
        x=max(d+(3 if hz else 1), M[i-1] if i>0 and not redirected else 0)
        if op=="ECALL" and any(M[j]==x or W[j]==x for j in range(max(0,i-4),i)): m=x+3; eff=x+2
        else: m=x+1; eff=x
        w=m+1
        rc=x-1  # last decode cycle
        g=lambda r: rd_at(rc,r)
        val=None; npc=pc+4; red=False
        if op=="ADDI": val=(g(ins[2])+ins[3])&MASK
        elif op=="ADD": val=(g(ins[2])+g(ins[3]))&MASK
        elif op=="LW":
            a=(g(ins[2])+ins[3])&MASK
            if a<B or a>MASK-3: fault=(pc,i); break
            val=sum(mem.get(a+k,0)<<(8*k) for k in range(4))
        elif op=="SW":
            a=(g(ins[1])+ins[3])&MASK
            if a<B or a>MASK-3: fault=(pc,i); break
            v=g(ins[2])
            for k in range(4): mem[a+k]=(v>>(8*k))&255
        elif op in("BEQ","BNE","BLT"):
            a,b=g(ins[1]),g(ins[2])
            t={"BEQ":a==b,"BNE":a!=b,"BLT":sx(a)<sx(b)}[op]
            if t: npc=pc+ins[3]; red=True
        elif op=="JAL": val=(pc+4)&MASK; npc=pc+ins[2]; red=True
        elif op=="JALR": val=(pc+4)&MASK; npc=((g(ins[2])+ins[3])&~1)&MASK; red=True
        elif op=="ECALL":
            a7=rd_at(eff,17); a0=rd_at(eff,10)   # all older have W<eff
            if a7==1: out+=str(sx(a0))
            elif a7==10: exitc=0
            elif a7==93: exitc=a0
            elif a7 in (2,4,11,34,35,36): return None
            else: fault=(pc,i); break
        F.append(f);D.append(d);X.append(x);M.append(m);W.append(w);meta.append((dst,))
        if val is not None and dst: pend.append((w,dst,val))
        retire.append((pc,w))
        i+=1; redirected=red; pc=npc
        if exitc is not None: break
    final=list(regs0)
    for (w,d,val) in pend: final[d]=val
    return retire, final, mem, out, exitc, fault, i>=maxn
def impl(P, init, detect):
    s=RiscvSimulation(mode="five_stage_pipeline", detect_data_hazards=detect)
    s.state.instruction_memory.write_instructions([getattr(R,p[0])(*p[1:]) for p in P])
    for k,v in init.items(): s.state.register_file.registers[k]=fixedint.UInt32(v)
    ret=[]; c=0; exc=None
    try:
        while not s.is_done() and c<3000:
            s.step(); c+=1
            a=s.state.pipeline.pipeline_registers[4].address_of_instruction
            if a is not None: ret.append((a,c))
    except Exception as e: exc=getattr(e,'address',repr(e))
    mem={k:int(v) for k,v in s.state.memory.memory_file.items()}
    return ret,[int(r) for r in s.state.register_file.registers],mem,s.state.output,s.state.exit_code,exc,s.state.performance_metrics.stalls
def rnd_prog(rng, n):
    regs=[0,1,2,3,10,17]
    r=lambda: rng.choice(regs)
    P=[]
    for k in range(n):
        t=rng.random()
        if t<0.35: P.append(("ADDI",r(),r(),rng.choice([0,1,-1,5])))
        elif t<0.5: P.append(("ADD",r(),r(),r()))
        elif t<0.6: P.append(("LW",r(),8,rng.choice([0,4,8])))
        elif t<0.7: P.append(("SW",8,r(),rng.choice([0,4,8])))
        elif t<0.82: P.append((rng.choice(["BEQ","BNE","BLT"]),r(),r(),4*rng.randint(-3,4)))
        elif t<0.88: P.append(("JAL",r(),4*rng.randint(-2,4),0))
        elif t<0.92: P.append(("JALR",r(),r(),rng.choice([0,4,8])))
        else: P.append(("ECALL",))
    return P
rng=random.Random(int(sys.argv[1])); detect=(sys.argv[3]=="1"); bad=0; tot=0; stale=0; skipped=0
for it in range(int(sys.argv[2])):
    P=rnd_prog(rng, rng.randint(1,14))
    init={8:B,17:rng.choice([1,1,1,10,93]),10:rng.choice([0,7]),1:rng.choice([0,1,4,8]),2:rng.choice([0,1,12]),3:rng.choice([0,16])}
    rr=ref(P,init,detect)
    if rr is None: skipped+=1; continue
    ret,final,mem,out,exitc,fault,timeout=rr
    if timeout: skipped+=1; continue
    iret,iregs,imem,iout,iexit,iexc,stalls=impl(P,init,detect)
    tot+=1
    if fault:
        ok = (iexc==fault[0]) and iret==ret[:len(iret)] 
    else:
        imem={k:v for k,v in imem.items() if v or k in mem}
        mem2={k:v for k,v in mem.items()}
        ok = iexc is None and iret==ret and iregs==final and {k:v for k,v in imem.items()}=={k:v for k,v in mem2.items() if True} and iout==out and iexit==exitc
    if not ok:
        bad+=1
        if bad<=4:
            print("MISMATCH",P,init,"fault",fault); print(" ref",ret,final[:4],final[10],final[17],out,exitc); print(" imp",iret,iregs[:4],iregs[10],iregs[17],iout,iexit,iexc)
print("detect",detect,"tot",tot,"bad",bad,"skipped",skipped)
