"""Hypothesis rule-based state machines (stateful testing) that drive the SAME incremental interpreters as the
list-based histories.  Rules are operations with generated arguments, preconditions encode what callers may do
(preloads only before the first cached access), the oracle runs inside every rule, and the whole rule sequence
shrinks as one value; the shrunk history is reported as an ordinary JSON case (so the replay path is unchanged).
"""
from __future__ import annotations

import hypothesis
from hypothesis import HealthCheck, settings
from hypothesis import strategies as st
from hypothesis.stateful import RuleBasedStateMachine, initialize, precondition, rule, run_state_machine_as_test

from vf import cachehist, core
from vf.core import Violation
from vf.gen import cachecfg

B, T, M32 = cachehist.B, cachehist.T, cachehist.M32
VALUES = st.one_of(st.sampled_from([0, 1, 0xFF, 0x80, 0xFFFF, 0x8000, 0xFFFFFFFF, 0x01020304, 0xA1B2C3D4]), st.integers(0, M32))


def cache_machine(stats, clauses, nontrivial, accepted_only):
    class CacheMachine(RuleBasedStateMachine):
        def __init__(self):
            super().__init__()
            self.case = None
            self.gen = None
            self.dead = False

        @initialize(cfg=st.one_of(cachecfg.small_cache_config(), cachecfg.cache_config()), region=st.integers(0, 3), nsel=st.integers(1, 3))
        def setup(self, cfg, region, nsel):
            self.case = {"cfg": cfg, "pre": [], "ops": []}
            self.nsets = 1 << cfg["idx"]
            self.blk = 4 << cfg["blk"]
            self.stride = self.nsets * self.blk
            self.ntags = cfg["ways"] + 2
            base = [B, B, B + 16 * self.stride, T - (self.ntags + 1) * self.stride][region]
            self.region = base - base % self.stride
            self.sets = list(range(min(self.nsets, nsel if cfg["ways"] < 4 else 1)))

        def _addr(self, tag, seti, off, spell):
            a = self.region + (tag % self.ntags) * self.stride + self.sets[seti % len(self.sets)] * self.blk + off % self.blk
            return a + [0, 0, 0, T, -T][spell % 5]

        def _send(self, op):
            if self.gen is None:
                self.gen = cachehist.stepper(self.case, clauses)
                next(self.gen)
            self.case["ops"].append(op)
            try:
                self.gen.send(op)
            except BaseException:
                self.dead = True          # the interpreter stopped at a violation: nothing left to finish in teardown
                raise

        @precondition(lambda self: self.case is not None and self.gen is None and len(self.case["pre"]) < 6)
        @rule(tag=st.integers(0, 9), seti=st.integers(0, 2), word=st.integers(0, 7), v=VALUES, w=st.sampled_from([4, 4, 1, 2]), sub=st.integers(0, 3))
        def preload(self, tag, seti, word, v, w, sub):
            a = self._addr(tag, seti, 4 * word, 0) & ~3
            if w == 4:
                self.case["pre"].append([a, v])
            else:
                off = sub % 4 if w == 1 else (sub % 2) * 2
                self.case["pre"].append([a + off, v & ((1 << (8 * w)) - 1), w])

        @precondition(lambda self: self.case is not None)
        @rule(tag=st.integers(0, 9), seti=st.integers(0, 2), off=st.integers(0, 31), w=st.sampled_from([1, 2, 4, 4]), counted=st.booleans(),
              spell=st.integers(0, 4))
        def read(self, tag, seti, off, w, counted, spell):
            a = self._addr(tag, seti, off, spell)
            if accepted_only and (a % 4) + w > 4:
                a -= (a % 4) + w - 4
            self._send(["r", w, a, counted])

        @precondition(lambda self: self.case is not None)
        @rule(tag=st.integers(0, 9), seti=st.integers(0, 2), off=st.integers(0, 31), w=st.sampled_from([1, 2, 4, 4]), v=VALUES, spell=st.integers(0, 4))
        def write(self, tag, seti, off, w, v, spell):
            a = self._addr(tag, seti, off, spell)
            if accepted_only and (a % 4) + w > 4:
                a -= (a % 4) + w - 4
            self._send(["w", w, a, v & ((1 << (8 * w)) - 1)])

        @precondition(lambda self: self.case is not None and not accepted_only)
        @rule(a=st.sampled_from([B - 1, B - 4, 0, 4, T - 1, T - 2, T - 3, B - 2]), w=st.sampled_from([1, 2, 4]), v=VALUES, rw=st.booleans())
        def odd_address(self, a, w, v, rw):
            self._send(["r", w, a, True] if rw else ["w", w, a, v & ((1 << (8 * w)) - 1)])

        @precondition(lambda self: self.case is not None and self.gen is not None)
        @rule(tag=st.integers(0, 9), seti=st.integers(0, 2))
        def inspect(self, tag, seti):
            self._send(["i", 4, self._addr(tag, seti, 0, 0) & ~3])

        @precondition(lambda self: self.case is not None and self.gen is not None and len(self.case["ops"]) >= 3)
        @rule()
        def reset(self):
            self._send(["z"])

        def teardown(self):
            if self.gen is not None and not self.dead:
                flags, tags = self.gen.send(None)
                cachehist.finish(self.case, stats, flags, tags | {"engine:rule-based-machine"}, nontrivial)

    return CacheMachine


def machine_search(machine_cls, stats, n, seed, steps=50):
    """Run a rule-based machine for n examples; a Violation (already shrunk by Hypothesis) is recorded, not raised."""
    try:
        run_state_machine_as_test(
            hypothesis.seed(seed)(machine_cls),
            settings=settings(max_examples=n, stateful_step_count=steps, deadline=None, database=None, report_multiple_bugs=False,
                              suppress_health_check=list(HealthCheck), print_blob=False, verbosity=hypothesis.Verbosity.quiet))
    except Violation as v:
        stats.violations.append({"clause": v.clause, "case": v.case, "detail": v.detail})
    except hypothesis.errors.HypothesisException as e:
        raise core.HarnessError(f"hypothesis stateful: {type(e).__name__}: {e}")
