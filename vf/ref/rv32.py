"""Reference RV32IM interpreter on plain Python ints (no fixedint, no repository code).

Instruction form (JSON-friendly lists):
  R-type   [op, rd, rs1, rs2]          add sub sll slt sltu xor srl sra or and mul mulh mulhsu mulhu div divu rem remu
  I-type   [op, rd, rs1, imm]          addi slti sltiu xori ori andi        (imm: signed 12 bit)
  shift-I  [op, rd, rs1, shamt]        slli srli srai                       (0..31)
  load     [op, rd, rs1, imm]          lb lh lw lbu lhu
  store    [op, rs1, rs2, imm]         sb sh sw    (rs1 = base, rs2 = data: the repository's constructor order)
  branch   [op, rs1, rs2, imm]         beq bne blt bge bltu bgeu            (imm: signed 13 bit, even)
  U-type   [op, rd, imm20]             lui auipc                            (imm20: signed 20 bit)
  jal      ["jal", rd, imm21]                                               (signed 21 bit, even)
  jalr     ["jalr", rd, rs1, imm]
  ecall    ["ecall"]
Semantics follow the RISC-V unprivileged specification (RV32I + M) and the simulator's documented ecall table.
"""
from __future__ import annotations

import struct

from .bytestore import CellStore, RefAddressError, riscv_store

M32 = 0xFFFFFFFF

R_OPS = ["add", "sub", "sll", "slt", "sltu", "xor", "srl", "sra", "or", "and",
         "mul", "mulh", "mulhsu", "mulhu", "div", "divu", "rem", "remu"]
I_OPS = ["addi", "slti", "sltiu", "xori", "ori", "andi"]
SH_OPS = ["slli", "srli", "srai"]
LOAD_OPS = ["lb", "lh", "lw", "lbu", "lhu"]
STORE_OPS = ["sb", "sh", "sw"]
BRANCH_OPS = ["beq", "bne", "blt", "bge", "bltu", "bgeu"]
U_OPS = ["lui", "auipc"]
ALL_OPS = R_OPS + I_OPS + SH_OPS + LOAD_OPS + STORE_OPS + BRANCH_OPS + U_OPS + ["jal", "jalr", "ecall"]
assert len(ALL_OPS) == 46

LOAD_W = {"lb": 1, "lh": 2, "lw": 4, "lbu": 1, "lhu": 2}
STORE_W = {"sb": 1, "sh": 2, "sw": 4}


def sx(v: int, bits: int = 32) -> int:
    v &= (1 << bits) - 1
    return v - (1 << bits) if v >> (bits - 1) else v


def sources(ins) -> tuple[int, ...]:
    """Register numbers read in the decode stage (ecall reads a7/a0 separately, at its effect time)."""
    op = ins[0]
    if op in R_OPS:
        return (ins[2], ins[3])
    if op in I_OPS or op in SH_OPS or op in LOAD_OPS or op == "jalr":
        return (ins[2],)
    if op in STORE_OPS or op in BRANCH_OPS:
        return (ins[1], ins[2])
    return ()


def dest(ins) -> int:
    """Destination register (0 = none / x0)."""
    op = ins[0]
    if op in STORE_OPS or op in BRANCH_OPS or op == "ecall":
        return 0
    return ins[1]


def _tdiv(a: int, b: int) -> int:  # division truncating toward zero on Python ints
    q = abs(a) // abs(b)
    return q if (a < 0) == (b < 0) else -q


def alu(op: str, a: int, b: int) -> int:
    """a, b unsigned 32-bit; returns unsigned 32-bit result of the R-type operation `op`."""
    sa, sb = sx(a), sx(b)
    if op == "add":
        r = a + b
    elif op == "sub":
        r = a - b
    elif op == "sll":
        r = a << (b & 31)
    elif op == "slt":
        r = int(sa < sb)
    elif op == "sltu":
        r = int(a < b)
    elif op == "xor":
        r = a ^ b
    elif op == "srl":
        r = a >> (b & 31)
    elif op == "sra":
        r = sa >> (b & 31)
    elif op == "or":
        r = a | b
    elif op == "and":
        r = a & b
    elif op == "mul":
        r = a * b
    elif op == "mulh":
        r = (sa * sb) >> 32
    elif op == "mulhsu":
        r = (sa * b) >> 32
    elif op == "mulhu":
        r = (a * b) >> 32
    elif op == "div":
        r = -1 if b == 0 else (sa if (sa == -(1 << 31) and sb == -1) else _tdiv(sa, sb))
    elif op == "divu":
        r = M32 if b == 0 else a // b
    elif op == "rem":
        r = a if b == 0 else (0 if (sa == -(1 << 31) and sb == -1) else sa - _tdiv(sa, sb) * sb)
    elif op == "remu":
        r = a if b == 0 else a % b
    else:
        raise ValueError(op)
    return r & M32


I2R = {"addi": "add", "slti": "slt", "sltiu": "sltu", "xori": "xor", "ori": "or", "andi": "and",
       "slli": "sll", "srli": "srl", "srai": "sra"}


def branch_taken(op: str, a: int, b: int) -> bool:
    sa, sb = sx(a), sx(b)
    return {"beq": a == b, "bne": a != b, "blt": sa < sb, "bge": sa >= sb, "bltu": a < b, "bgeu": a >= b}[op]


class Effects:
    __slots__ = ("pc", "ins", "rd", "rd_val", "next_pc", "redirect", "taken_branch", "is_call", "store", "load",
                 "fault", "out", "exit", "ecall_code", "str_reads")

    def __init__(self, pc, ins):
        self.pc = pc
        self.ins = ins
        self.rd = 0
        self.rd_val = None
        self.next_pc = (pc + 4) & M32
        self.redirect = False       # control transfer resolved in MEM (taken branch, jal, jalr)
        self.taken_branch = False
        self.is_call = False        # JAL (the simulator's "procedure" counter)
        self.store = None           # (addr, nbytes, value)
        self.load = None            # (addr, nbytes)
        self.fault = None           # reason string
        self.out = None             # ("int", signed) ("uint", v) ("hex", v) ("bin", v) ("float", raw) ("char", code) ("str", [bytes])
        self.exit = None            # exit code (unsigned 32)
        self.ecall_code = None
        self.str_reads = []         # addresses read by ecall 4 (uncounted reads)


def execute(ins, pc: int, rr, mem: CellStore, ecall_rr=None) -> Effects:
    """Effects of `ins` at `pc`. `rr(r)` supplies decode-time operand values (unsigned), `ecall_rr(r)` the values
    of a7/a0 at the ecall's effect time (defaults to rr). Memory is read but NOT modified here (see commit())."""
    op = ins[0]
    e = Effects(pc, ins)
    if op in R_OPS:
        e.rd, e.rd_val = ins[1], alu(op, rr(ins[2]), rr(ins[3]))
    elif op in I_OPS:
        e.rd, e.rd_val = ins[1], alu(I2R[op], rr(ins[2]), sx(ins[3], 12) & M32)
    elif op in SH_OPS:
        e.rd, e.rd_val = ins[1], alu(I2R[op], rr(ins[2]), ins[3] & 31)
    elif op in LOAD_OPS:
        n = LOAD_W[op]
        addr = (rr(ins[2]) + sx(ins[3], 12)) & M32
        e.load = (addr, n)
        try:
            v = mem.read(addr, n)
        except RefAddressError as ex:
            e.fault = f"load touches invalid address {ex.address:#x}"
            return e
        if op == "lb":
            v = sx(v, 8) & M32
        elif op == "lh":
            v = sx(v, 16) & M32
        e.rd, e.rd_val = ins[1], v
    elif op in STORE_OPS:
        n = STORE_W[op]
        addr = (rr(ins[1]) + sx(ins[3], 12)) & M32
        val = rr(ins[2]) & ((1 << (8 * n)) - 1)
        e.store = (addr, n, val)
        if mem.classify(addr, n) != "ok":
            e.fault = "store touches invalid address"
    elif op in BRANCH_OPS:
        if branch_taken(op, rr(ins[1]), rr(ins[2])):
            e.taken_branch = e.redirect = True
            e.next_pc = (pc + sx(ins[3], 13)) & M32
    elif op == "lui":
        e.rd, e.rd_val = ins[1], (sx(ins[2], 20) << 12) & M32
    elif op == "auipc":
        e.rd, e.rd_val = ins[1], (pc + (sx(ins[2], 20) << 12)) & M32
    elif op == "jal":
        e.rd, e.rd_val = ins[1], (pc + 4) & M32
        e.next_pc = (pc + sx(ins[2], 21)) & M32
        e.redirect = e.is_call = True
    elif op == "jalr":
        e.rd, e.rd_val = ins[1], (pc + 4) & M32
        e.next_pc = (rr(ins[2]) + sx(ins[3], 12)) & M32 & ~1
        e.redirect = True
    elif op == "ecall":
        g = ecall_rr or rr
        code, a0 = g(17), g(10)
        e.ecall_code = code
        if code == 1:
            e.out = ("int", sx(a0))
        elif code == 2:
            e.out = ("float", a0)
        elif code == 4:
            bs, a = [], a0
            while True:
                try:
                    b = mem.read(a, 1)
                except RefAddressError as ex:
                    e.fault = f"ecall 4 reads invalid address {ex.address:#x}"
                    return e
                e.str_reads.append(a & M32)
                if b == 0:
                    break
                bs.append(b)
                a += 1
            e.out = ("str", bs)
        elif code == 11:
            e.out = ("char", a0)
        elif code == 34:
            e.out = ("hex", a0)
        elif code == 35:
            e.out = ("bin", a0)
        elif code == 36:
            e.out = ("uint", a0)
        elif code == 10:
            e.exit = 0
        elif code == 93:
            e.exit = a0
        else:
            e.fault = f"invalid ecall code {code}"
    else:
        raise ValueError(f"unsupported op {op}")
    if e.rd == 0:
        e.rd_val = None
    return e


def out_matches(out, text: str) -> bool:
    """Does `text` denote what the ecall table prescribes for `out`? (parse-back, format-agnostic)"""
    kind, v = out
    try:
        if kind == "int":
            return int(text, 10) == v
        if kind == "uint":
            return int(text, 10) == v and not text.strip().startswith("-")
        if kind == "hex":
            return text.lower().startswith("0x") and int(text, 16) == v
        if kind == "bin":
            return text.lower().startswith("0b") and int(text, 2) == v
        if kind == "float":
            raw = struct.pack(">I", v)
            f = struct.unpack(">f", raw)[0]
            g = float(text)
            if f != f:
                return g != g
            return struct.pack(">f", g) == raw
        if kind == "char":
            return len(text) == 1 and (v >= 128 or text == chr(v))
        if kind == "str":
            return len(text) == len(v) and all(b >= 128 or c == chr(b) for b, c in zip(v, text))
    except (ValueError, OverflowError):
        return False
    return False


class Machine:
    """Sequential RV32IM machine: program = {address: ins}, 32 registers, pc, byte memory, output pieces."""

    def __init__(self, program: dict, regs=None, mem: CellStore | None = None, pc: int = 0, data_lo: int = 2 ** 14):
        self.program = program
        self.regs = [0] * 32
        if regs:
            for k, v in (regs.items() if isinstance(regs, dict) else enumerate(regs)):
                if int(k) != 0:
                    self.regs[int(k)] = v & M32
        self.mem = mem if mem is not None else riscv_store(data_lo)
        self.pc = pc & M32
        self.outs: list = []
        self.exit = None
        self.fault = None
        self.trace: list[Effects] = []
        self.branches = 0
        self.calls = 0

    def done(self) -> bool:
        return self.exit is not None or self.pc not in self.program

    def step(self) -> Effects | None:
        if self.done() or self.fault is not None:
            return None
        ins = self.program[self.pc]
        e = execute(ins, self.pc, lambda r: self.regs[r], self.mem)
        if e.fault is not None:
            self.fault = (self.pc, e.fault)
            self.trace.append(e)
            return e
        self.commit(e)
        return e

    def commit(self, e: Effects):
        if e.store is not None:
            self.mem.write(*e.store)
        if e.rd:
            self.regs[e.rd] = e.rd_val
        if e.out is not None:
            self.outs.append(e.out)
        if e.exit is not None:
            self.exit = e.exit
        self.branches += int(e.taken_branch)
        self.calls += int(e.is_call)
        self.pc = e.next_pc
        self.trace.append(e)

    def run(self, max_steps: int):
        n = 0
        while n < max_steps and not self.done() and self.fault is None:
            self.step()
            n += 1
        return n
