"""Reference flat store: a dict of cells (8 or 16 bits wide), little-endian composition, optional address
wrap-around, a valid address range.  Written from the property text, shares no code with the repository."""
from __future__ import annotations


class RefAddressError(Exception):
    def __init__(self, address):
        super().__init__(hex(address))
        self.address = address


class CellStore:
    def __init__(self, cell_bits: int, addr_bits: int, wrap: bool, lo: int, hi: int):
        self.cell_bits = cell_bits
        self.cell_mask = (1 << cell_bits) - 1
        self.addr_bits = addr_bits
        self.wrap = wrap
        self.lo = lo
        self.hi = hi
        self.cells: dict[int, int] = {}

    def copy(self):
        c = CellStore(self.cell_bits, self.addr_bits, self.wrap, self.lo, self.hi)
        c.cells = dict(self.cells)
        return c

    def norm(self, a: int) -> int:
        return a % (1 << self.addr_bits) if self.wrap else a

    def valid(self, a: int) -> bool:
        return self.lo <= self.norm(a) < self.hi

    def cells_of(self, addr: int, n: int) -> list[int]:
        return [self.norm(addr + i) for i in range(n)]

    def classify(self, addr: int, n: int) -> str:
        """'ok' all cells valid, 'none' no cell valid, 'partial' otherwise."""
        v = [self.valid(addr + i) for i in range(n)]
        return "ok" if all(v) else ("none" if not any(v) else "partial")

    def read(self, addr: int, n: int) -> int:
        val = 0
        for i in range(n):
            a = self.norm(addr + i)
            if not (self.lo <= a < self.hi):
                raise RefAddressError(a)
            val |= self.cells.get(a, 0) << (i * self.cell_bits)
        return val

    def write(self, addr: int, n: int, value: int) -> None:
        """All-or-nothing write (callers decide separately what a partly valid write means)."""
        for i in range(n):
            a = self.norm(addr + i)
            if not (self.lo <= a < self.hi):
                raise RefAddressError(a)
        for i in range(n):
            self.cells[self.norm(addr + i)] = (value >> (i * self.cell_bits)) & self.cell_mask

    def written_cells(self):
        return set(self.cells)


def riscv_store(lo=2 ** 14):
    return CellStore(8, 32, True, lo, 2 ** 32)


def toy_store(size=4096):
    return CellStore(16, 12, False, 0, size)
