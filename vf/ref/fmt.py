"""Parse-back oracle for the four displayed number representations (bin, udec, hex, sdec) at a stated width."""
from __future__ import annotations


def _groups_ok(s: str, digits: int, group: int, alphabet: str):
    parts = s.split(" ")
    if "".join(parts) == "" or any(p == "" for p in parts):
        return "empty group / doubled separator"
    joined = "".join(parts)
    if len(joined) != digits:
        return f"{len(joined)} digits instead of {digits}"
    if any(c not in alphabet for c in joined):
        return "illegal character"
    first = (digits - 1) % group + 1
    want = [first] + [group] * ((digits - first) // group)
    if [len(p) for p in parts] != want:
        return f"group sizes {[len(p) for p in parts]} instead of {want}"
    return None


def problem(reprs, value: int, n: int):
    """None if the 4-tuple `reprs` faithfully shows `value` (any Python int) at width n, else a description."""
    if not isinstance(reprs, (tuple, list)) or len(reprs) != 4 or not all(isinstance(x, str) for x in reprs):
        return f"not a 4-tuple of strings: {reprs!r}"
    b, u, h, s = reprs
    want_u = value % (1 << n)
    want_s = want_u - (1 << n) if want_u >> (n - 1) else want_u
    e = _groups_ok(b, n, 8, "01")
    if e:
        return f"bin {b!r}: {e}"
    if int(b.replace(" ", ""), 2) != want_u:
        return f"bin {b!r} denotes {int(b.replace(' ', ''), 2)}, value is {want_u}"
    e = _groups_ok(h, -(-n // 4), 2, "0123456789ABCDEFabcdef")
    if e:
        return f"hex {h!r}: {e}"
    if int(h.replace(" ", ""), 16) != want_u:
        return f"hex {h!r} denotes {int(h.replace(' ', ''), 16)}, value is {want_u}"
    try:
        if int(u, 10) != want_u or u.strip() != u or u.startswith(("+", "-")):
            return f"udec {u!r}, value is {want_u}"
        if int(s, 10) != want_s or s.strip() != s:
            return f"sdec {s!r}, value is {want_s}"
    except ValueError:
        return f"decimal strings do not parse: {u!r} {s!r}"
    return None
