"""RISC-V source AST, renderer (random spelling driven by a replayable choice tape) and reference assembler
(data layout, label addresses, denoted instructions).  Written from the help pages; no repository code.

AST
  {"data": [decl], "text": [line], "data_first": bool, "text_directive": bool}
  decl = {"name", "type": "byte"|"half"|"word", "values": [int]} | {"name", "type": "string", "string": str}
       | {"name", "type": "zero", "n": int}
  line = {"label": name} | {"ins": [...], "inline": name|None, "form": 0|1}
  ins  = abstract instruction of vf.ref.rv32 (R/I/shift/load/store/U/jalr/ecall), or
         [branch, rs1, rs2, target]  target = {"imm": n} | {"label": name, "off": k|None}
         ["jal", rd, target]         target = {"abs": n} | {"label": name, "off": k|None}
         ["csrrw|csrrs|csrrc", rd, csr, rs1], ["csrrwi|csrrsi|csrrci", rd, csr, uimm]
         pseudo: ["nop"], ["mv", rd, rs], ["li", rd, c], ["la", rd, {"var": name, "idx": i|None}],
                 [load, rd, {"var":..}], [store, data_reg, {"var":..}, addr_reg]
"""
from __future__ import annotations

from . import rv32

ABI = {0: ["zero"], 1: ["ra"], 2: ["sp"], 3: ["gp"], 4: ["tp"], 5: ["t0"], 6: ["t1"], 7: ["t2"], 8: ["s0", "fp"], 9: ["s1"],
       10: ["a0"], 11: ["a1"], 12: ["a2"], 13: ["a3"], 14: ["a4"], 15: ["a5"], 16: ["a6"], 17: ["a7"], 18: ["s2"], 19: ["s3"],
       20: ["s4"], 21: ["s5"], 22: ["s6"], 23: ["s7"], 24: ["s8"], 25: ["s9"], 26: ["s10"], 27: ["s11"], 28: ["t3"],
       29: ["t4"], 30: ["t5"], 31: ["t6"]}
CSR_OPS = ["csrrw", "csrrs", "csrrc"]
CSRI_OPS = ["csrrwi", "csrrsi", "csrrci"]
ELEM = {"byte": 1, "half": 2, "word": 4, "string": 1, "zero": 4}
M32 = 0xFFFFFFFF


def is_pseudo(ins) -> bool:
    op = ins[0]
    if op in ("nop", "mv", "li", "la"):
        return True
    return any(isinstance(x, dict) and "var" in x for x in ins[1:])


# ----------------------------------------------------------------------------------------------------------------
# rendering
# ----------------------------------------------------------------------------------------------------------------
# trailing trivia: nothing, blanks, and comments with content that must stay inert (quotes, colons, directives, #, unicode)
COMMENTS = ["", "", "", " # c", "#c", "   # jal x0, 0", "  ", ' # say "hi"', " # x: .word 5", ' #"', " # it's", " ## twice # thrice", " # a, b(c) [1] +0x4",
            " # é ü", " # .data", "\t# tab", " # lbl:", " # don't", ' # 5" tall, it\'s', " # 'a' \"b\" 'c"]


class Tape:
    def __init__(self, tape):
        self.tape = list(tape) or [0]
        self.k = 0

    def pick(self, n: int) -> int:
        v = self.tape[self.k % len(self.tape)] % n
        self.k += 1
        return v


def _reg(r, t: Tape):
    names = ["x%d" % r] + ABI[r]
    return names[t.pick(len(names))]


def _num(v, t: Tape, bases=(10, 16, 2)):
    b = bases[t.pick(len(bases))]
    sign = "-" if v < 0 else ""
    a = abs(v)
    if b == 10:
        return sign + str(a)
    if b == 16:
        h = "%x" % a
        return sign + "0x" + (h.upper() if t.pick(2) else h)
    return sign + "0b" + bin(a)[2:]


def _mn(op, t: Tape):
    c = t.pick(3)
    return op.upper() if c == 1 else (op.capitalize() if c == 2 else op)


def _var(v):
    return v["var"] + ("[%d]" % v["idx"] if v.get("idx") is not None else "")


def _target(tg, t: Tape, key):
    if key in tg:
        return _num(tg[key], t)
    s = tg["label"]
    if tg.get("off") is not None:
        s += ["+", " + ", "+ "][t.pick(3)] + "0x%X" % tg["off"]
    return s


def render_ins(ins, form, t: Tape):
    op = ins[0]
    c = [", ", ",", " , ", ",  "][t.pick(4)]
    m = _mn(op, t)
    if op in ("ecall", "nop"):
        return m
    if op == "mv":
        return f"{m} {_reg(ins[1], t)}{c}{_reg(ins[2], t)}"
    if op == "li":
        return f"{m} {_reg(ins[1], t)}{c}{_num(ins[2], t)}"
    if op == "la":
        return f"{m} {_reg(ins[1], t)}{c}{_var(ins[2])}"
    if op in rv32.LOAD_OPS and isinstance(ins[2], dict):
        return f"{m} {_reg(ins[1], t)}{c}{_var(ins[2])}"
    if op in rv32.STORE_OPS and isinstance(ins[2], dict):
        return f"{m} {_reg(ins[1], t)}{c}{_var(ins[2])}{c}{_reg(ins[3], t)}"
    if op in rv32.R_OPS:
        return f"{m} {_reg(ins[1], t)}{c}{_reg(ins[2], t)}{c}{_reg(ins[3], t)}"
    if op in rv32.I_OPS or op in rv32.SH_OPS or op == "jalr":
        return f"{m} {_reg(ins[1], t)}{c}{_reg(ins[2], t)}{c}{_num(ins[3], t)}"
    if op in rv32.LOAD_OPS:
        if form == 0:
            return f"{m} {_reg(ins[1], t)}{c}{_num(ins[3], t)}({_reg(ins[2], t)})"
        return f"{m} {_reg(ins[1], t)}{c}{_reg(ins[2], t)}{c}{_num(ins[3], t)}"
    if op in rv32.STORE_OPS:          # [op, base, data, imm]
        if form == 0:
            return f"{m} {_reg(ins[2], t)}{c}{_num(ins[3], t)}({_reg(ins[1], t)})"
        return f"{m} {_reg(ins[2], t)}{c}{_reg(ins[1], t)}{c}{_num(ins[3], t)}"
    if op in rv32.BRANCH_OPS:
        return f"{m} {_reg(ins[1], t)}{c}{_reg(ins[2], t)}{c}{_target(ins[3], t, 'imm')}"
    if op in rv32.U_OPS:
        return f"{m} {_reg(ins[1], t)}{c}{_num(ins[2], t)}"
    if op == "jal":
        return f"{m} {_reg(ins[1], t)}{c}{_target(ins[2], t, 'abs')}"
    if op in CSR_OPS:
        return f"{m} {_reg(ins[1], t)}{c}{_num(ins[2], t, (10, 16))}{c}{_reg(ins[3], t)}"
    if op in CSRI_OPS:
        return f"{m} {_reg(ins[1], t)}{c}{_num(ins[2], t, (10, 16))}{c}{_num(ins[3], t, (10, 16))}"
    raise ValueError(op)


def render_decl(d, t: Tape):
    if d["type"] == "string":
        return f'{d["name"]}: .string "{d["string"]}"'
    if d["type"] == "zero":
        return f'{d["name"]}: .zero {d["n"]}'
    c = [", ", ",", " , "][t.pick(3)]
    return f'{d["name"]}: .{d["type"]} ' + c.join(_num(v, t) for v in d["values"])


def render(ast, tape, trivia=True):
    """-> (text, line_of) where line_of[i] is the 1-based source line of text item i (labels and instructions)."""
    t = Tape(tape)
    lines = []
    line_of = []

    def emit(s, record=None):
        if trivia:
            for _ in range(2):
                if t.pick(7) != 6:
                    break
                lines.append(["", "   ", "# a comment line", "\t", "    # addi x1, x1, 1", '# "quoted" comment', "#", "# .text"][t.pick(8)])
            s = ["", "  ", "\t", "    "][t.pick(4)] + s + COMMENTS[t.pick(len(COMMENTS))]
        lines.append(s)
        if record is not None:
            record.append(len(lines))

    def text_seg(with_directive):
        if with_directive:
            emit(".text")
        for item in ast["text"]:
            if "label" in item:
                emit(item["label"] + ":", line_of)
            else:
                s = render_ins(item["ins"], item.get("form", 0), t)
                if item.get("inline"):
                    s = item["inline"] + [": ", ":", " : ", ":  "][t.pick(4)] + s
                emit(s, line_of)

    def data_seg():
        emit(".data")
        for d in ast["data"]:
            emit(render_decl(d, t))

    has_data = bool(ast["data"]) or ast.get("data_directive")
    if has_data and ast.get("data_first"):
        data_seg()
        text_seg(True)
    else:
        text_seg(bool(ast.get("text_directive")))
        if has_data:
            data_seg()
    return "\n".join(lines) + "\n", line_of


# ----------------------------------------------------------------------------------------------------------------
# data layout
# ----------------------------------------------------------------------------------------------------------------
def layout(data, base: int):
    """-> (image {byte address: value}, variables {name: (address, element size, element count)}, end address)"""
    image = {}
    variables = {}
    a = base
    for d in data:
        a = (a + 3) & ~3          # every variable starts on a 4-byte boundary
        ty = d["type"]
        if ty == "string":
            bs = [ord(c) for c in d["string"]] + [0]
            variables[d["name"]] = (a, 1, len(bs))
            for b in bs:
                image[a] = b & 0xFF
                a += 1
        elif ty == "zero":
            variables[d["name"]] = (a, 4, d["n"])
            for _ in range(4 * d["n"]):
                image.setdefault(a, 0)
                a += 1
        else:
            w = ELEM[ty]
            variables[d["name"]] = (a, w, len(d["values"]))
            for v in d["values"]:
                v &= (1 << (8 * w)) - 1
                for i in range(w):
                    image[a + i] = (v >> (8 * i)) & 0xFF
                a += w
    return image, variables, a


def var_address(variables, ref):
    addr, size, _ = variables[ref["var"]]
    return addr + size * (ref.get("idx") or 0)


# ----------------------------------------------------------------------------------------------------------------
# denotation of real (non-pseudo) instructions
# ----------------------------------------------------------------------------------------------------------------
def denote_real(ins, own_addr: int, labels: dict):
    """Abstract rv32-form instruction (or csr tuple) denoted by a real source instruction at `own_addr`.
    Returns (abstract, extra) where extra carries abs_addr for jal."""
    op = ins[0]
    if op in rv32.R_OPS or op == "ecall":
        return list(ins), {}
    if op in rv32.I_OPS or op in rv32.LOAD_OPS or op == "jalr":
        return [op, ins[1], ins[2], rv32.sx(ins[3], 12)], {}
    if op in rv32.SH_OPS:
        return [op, ins[1], ins[2], ins[3] & 31], {}
    if op in rv32.STORE_OPS:
        return [op, ins[1], ins[2], rv32.sx(ins[3], 12)], {}
    if op in rv32.U_OPS:
        return [op, ins[1], rv32.sx(ins[2], 20)], {}
    if op in rv32.BRANCH_OPS:
        tg = ins[3]
        imm = tg["imm"] if "imm" in tg else labels[tg["label"]] + (tg.get("off") or 0) - own_addr
        return [op, ins[1], ins[2], rv32.sx(imm, 13)], {}
    if op == "jal":
        tg = ins[2]
        absolute = tg["abs"] if "abs" in tg else labels[tg["label"]] + (tg.get("off") or 0)
        return [op, ins[1], rv32.sx(absolute - own_addr, 21)], {"abs_addr": absolute}
    if op in CSR_OPS:
        return [op, ins[1], ins[2], ins[3]], {}
    if op in CSRI_OPS:
        return [op, ins[1], ins[2], ins[3] & 31], {}
    raise ValueError(op)


def abstract_of(obj):
    """Abstract form of one of the simulator's instruction objects, read from its public fields."""
    op = obj.mnemonic.lower()
    if op in rv32.R_OPS:
        return [op, obj.rd, obj.rs1, obj.rs2]
    if op in rv32.I_OPS or op in rv32.SH_OPS or op in rv32.LOAD_OPS or op == "jalr":
        return [op, obj.rd, obj.rs1, obj.imm]
    if op in rv32.STORE_OPS or op in rv32.BRANCH_OPS:
        return [op, obj.rs1, obj.rs2, obj.imm]
    if op in rv32.U_OPS or op == "jal":
        return [op, obj.rd, obj.imm]
    if op in CSR_OPS:
        return [op, obj.rd, obj.csr, obj.rs1]
    if op in CSRI_OPS:
        return [op, obj.rd, obj.csr, obj.uimm]
    return [op]
