"""Cycle-by-cycle occupancy model of the five-stage pipeline with hazard detection: which address is fetched in which
cycle, INCLUDING the fetches of instructions that are squashed later (wrong path).  Second, structural formulation next
to the closed-form schedule of vf.ref.pipe (they are cross-checked: the cycle in which each right-path instruction leaves
the write-back stage must agree).

Rules (documented pipeline; bookkeeping details as the help page / docs describe them):
  * one fetch per cycle at the fetch pc whenever an instruction is stored there and the front end is not frozen;
  * decode raises a 2-cycle interlock when a source register is the destination of the instruction in EX or MEM; the
    interlocked instruction is decoded again in both frozen cycles and proceeds in the third, a bubble goes down instead;
  * an ecall in EX waits (same 2-cycle freeze, repeated as needed) until MEM and WB are empty; while it waits its own
    copy in the EX/MEM latch does not count;
  * a taken branch / jal / jalr redirects in MEM: everything younger (the outputs of IF, ID, EX of that cycle) is
    dropped, a pending freeze of ID or EX is cancelled, the next fetch is the target;
  * an exiting ecall drops the younger instructions in EX, then again in MEM and WB, each time pointing the fetch pc
    behind the ecall; the simulation is finished after its write-back.
Control flow (which branch is taken, targets, which ecall exits) comes from the sequential ISA reference trace, so the
model needs no values.  Wrong-path instructions never reach MEM, so they never redirect or exit.
"""
from __future__ import annotations

from vf.ref import rv32


class Entry:
    __slots__ = ("pc", "ins", "k", "stall", "flush", "exiting", "stalled_value")

    def __init__(self, pc, ins, k):
        self.pc, self.ins, self.k = pc, ins, k
        self.stall = 0
        self.flush = None
        self.exiting = False
        self.stalled_value = False

    def copy(self):
        e = Entry(self.pc, self.ins, self.k)
        e.exiting = self.exiting
        return e


def simulate(prog, trace, max_cycles=100000):
    """prog: list of abstract instructions (addresses 4*i); trace: Effects of the sequential reference run (no fault).
    -> dict(fetches=[address per fetch, in order], cycles=n, retire={k: cycle of write-back}, done=bool)"""
    n = len(prog)

    def stored(pc):
        return pc % 4 == 0 and 0 <= pc // 4 < n

    R = [None, None, None, None, None]     # latches behind IF, ID, EX, MEM, WB
    pc = 0
    next_k = 0                             # dynamic index the next sequential fetch has, None on the wrong path
    stalled = None                         # [stage index, remaining]
    saved = None
    fetches = []
    retire = {}
    exit_done = False
    cycle = 0
    while cycle < max_cycles:
        if exit_done or (all(r is None for r in R[:4]) and not stored(pc)):
            break
        cycle += 1
        nxt = [None] * 5
        # ---- IF
        if stalled is not None:
            nxt[0] = R[0]
        elif stored(pc):
            k = next_k if (next_k is not None and next_k < len(trace) and trace[next_k].pc == pc) else None
            fetches.append(pc)
            nxt[0] = Entry(pc, prog[pc // 4], k)
            if k is not None:
                e = trace[k]
                next_k = k + 1 if (not e.redirect and e.exit is None) else None
            else:
                next_k = None
            pc += 4

        def view_for(index):
            """(input entry, latch view) of stage `index` under the stall bookkeeping."""
            view = list(R)
            if stalled is not None:
                if index == stalled[0] + 1:
                    view[stalled[0]] = None
                elif index <= stalled[0]:
                    view[index - 1] = saved[index - 1]
            return view[index - 1], view

        # ---- WB (retires)
        inp, _ = view_for(4)
        if inp is not None:
            o = inp.copy()
            if inp.k is not None:
                retire[inp.k] = cycle
            if inp.exiting:
                o.flush = (4, inp.pc + 4)
                exit_done = True
            nxt[4] = o
        # ---- ID
        inp, view = view_for(1)
        if inp is not None:
            o = inp.copy()
            later = [rv32.dest(v.ins) for v in (view[1], view[2]) if v is not None]
            if any(s and s in later for s in rv32.sources(inp.ins)):
                o.stall = 2
            nxt[1] = o
        # ---- EX
        inp, view = view_for(2)
        if inp is not None:
            o = inp.copy()
            if inp.ins[0] == "ecall":
                others = view[3:4] if inp.stalled_value else view[2:4]
                if any(v is not None for v in others):
                    o.stall = 2
                elif inp.k is not None and trace[inp.k].exit is not None:
                    o.exiting = True
                    o.flush = (2, inp.pc + 4)
            nxt[2] = o
        # ---- MEM
        inp, view = view_for(3)
        if inp is not None:
            o = inp.copy()
            if inp.k is not None and trace[inp.k].redirect:
                o.flush = (3, trace[inp.k].next_pc)
            elif inp.exiting:
                o.flush = (3, inp.pc + 4)
            nxt[3] = o
        # ---- stall signals (furthest stage first)
        for index in (4, 3, 2, 1, 0):
            r = nxt[index]
            if r is not None and r.stall and (stalled is None or index > stalled[0]):
                stalled = [index, r.stall + 1]
                break
        if stalled is not None and saved is None:
            saved = R[:stalled[0]]
            for r in saved:
                if r is not None:
                    r.stalled_value = True
        R = nxt
        if stalled is not None:
            stalled[1] -= 1
            if stalled[1] == 0:
                stalled = None
                saved = None
        # ---- flush (furthest stage first)
        for index in (4, 3, 2, 1, 0):
            r = R[index]
            if r is not None and r.flush is not None:
                num = r.flush[0]
                for j in range(num):
                    R[j] = None
                pc = r.flush[1]
                kk = r.k
                # after a redirect / exit the next fetch continues the right path behind instruction k
                next_k = kk + 1 if (kk is not None and trace[kk].exit is None) else None
                if stalled is not None and stalled[0] < num:
                    stalled = None
                    saved = None
                break
    return {"fetches": fetches, "cycles": cycle, "retire": retire, "done": cycle < max_cycles}
