"""Closed-form schedule of the documented five-stage pipeline + versioned register file (DESIGN.md §1.2).

For the dynamic correct-path stream i = 0,1,... (cycles count from 1):
  F[0] = 1;  F[i] = M[i-1]+1 if i-1 redirected (taken branch, JAL, JALR)  else D[i-1]
  D[i] = max(F[i]+1, X[i-1])
  hazard(i) <=> detect and some older j: rd(j) != x0, rd(j) in sources(i), (X[j] = D[i] or M[j] = D[i])
  X[i] = max(D[i] + (3 if hazard(i) else 1), M[i-1] if i-1 did not redirect)
  M[i] = X[i]+3 (effect at X[i]+2) if i is ECALL and some older j: M[j] = X[i] or W[j] = X[i]   else X[i]+1 (effect X[i])
  W[i] = M[i]+1   (retire; registers are written before the same cycle's decode reads)
  operands(i) = register file after all write-backs with W[j] <= X[i]-1 ; ecall reads a7/a0 at its effect cycle
No repository code is used; semantics of the individual instructions come from vf.ref.rv32.execute.
"""
from __future__ import annotations

from . import rv32
from .bytestore import CellStore

M32 = 0xFFFFFFFF


class Rec:
    __slots__ = ("i", "pc", "ins", "F", "D", "X", "M", "W", "eff", "hazard", "drain", "e", "stale")


class PipeResult:
    def __init__(self):
        self.recs: list[Rec] = []
        self.regs0 = [0] * 32
        self.pend = []            # (W, rd, value) in program order
        self.outs = []            # (effect cycle, out)
        self.exit = None
        self.fault = None         # (pc, cycle, reason)
        self.fault_rec = None     # schedule of the faulting instruction
        self.truncated = False    # hit max_instr
        self.total_cycles = 0
        self.mem = None
        self.interlocks = 0
        self.drains = 0
        self.stale_reads = 0

    def regs_at(self, cycle: int):
        """Register file after every write-back with W <= cycle."""
        r = list(self.regs0)
        for w, d, v in self.pend:
            if w <= cycle:
                r[d] = v
        return r

    def final_regs(self):
        return self.regs_at(1 << 60)

    def retire_by_step(self):
        return {r.W: r.pc for r in self.recs}


def simulate(program: dict, regs: dict | None, mem: CellStore, detect: bool = True, max_instr: int = 400) -> PipeResult:
    res = PipeResult()
    for k, v in (regs or {}).items():
        if int(k) != 0:
            res.regs0[int(k)] = v & M32
    res.mem = mem
    pend = res.pend
    regs0 = res.regs0
    # architectural (fresh) registers, only to flag stale reads
    fresh = list(regs0)

    def reg_at(cycle, r):
        if r == 0:
            return 0
        v = regs0[r]
        for w, d, val in pend:
            if d == r and w <= cycle:
                v = val
        return v

    recs = res.recs
    pc = 0
    prev = None
    while pc in program:
        if len(recs) >= max_instr:
            res.truncated = True
            break
        ins = program[pc]
        r = Rec()
        r.i, r.pc, r.ins = len(recs), pc, ins
        if prev is None:
            r.F = 1
        elif prev.e.redirect:
            r.F = prev.M + 1
        else:
            r.F = prev.D
        r.D = max(r.F + 1, prev.X if prev is not None else 0)
        src = {s for s in rv32.sources(ins) if s}
        r.hazard = False
        if detect and src:
            for j in recs[-4:]:
                dj = rv32.dest(j.ins)
                if dj and dj in src and (j.X == r.D or j.M == r.D):
                    r.hazard = True
                    break
        r.X = max(r.D + (3 if r.hazard else 1), prev.M if (prev is not None and not prev.e.redirect) else 0)
        r.drain = False
        if ins[0] == "ecall" and any(j.M == r.X or j.W == r.X for j in recs[-4:]):
            r.drain = True
            r.M, r.eff = r.X + 3, r.X + 2
        else:
            r.M, r.eff = r.X + 1, r.X
        r.W = r.M + 1
        rc = r.X - 1
        r.stale = any(reg_at(rc, s) != fresh[s] for s in src)
        e = rv32.execute(ins, pc, lambda x: reg_at(rc, x), mem, lambda x: reg_at(r.eff, x))
        r.e = e
        if e.fault is not None:
            # loads/stores fault in MEM (cycle M), an ecall faults at its effect cycle in EX
            res.fault = (pc, r.eff if ins[0] == "ecall" else r.M, e.fault)
            res.fault_rec = r
            break
        recs.append(r)
        res.interlocks += int(r.hazard)
        res.drains += int(r.drain)
        res.stale_reads += int(r.stale)
        if e.store is not None:
            mem.write(*e.store)
        if e.rd:
            pend.append((r.W, e.rd, e.rd_val))
            fresh[e.rd] = e.rd_val
        if e.out is not None:
            res.outs.append((r.eff, e.out))
        prev = r
        pc = e.next_pc
        if e.exit is not None:
            res.exit = e.exit
            break
    res.total_cycles = recs[-1].W if recs else 0
    return res
