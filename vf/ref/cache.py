"""Reference set-associative cache (tags only) with LRU / tree-PLRU replacement, written from the property text.

Write policies: 'wb' = write-back + write-allocate, 'wt' = write-through + no-write-allocate, 'ro' = read-only
(instruction cache).  Data contents are not modelled here: logical contents come from vf.ref.bytestore, which is
the point of the transparency property.
"""
from __future__ import annotations


class RefLRU:
    """Last-access stamps; never-accessed ways count as oldest, in index order."""

    def __init__(self, ways: int):
        self.ways = ways
        self.stamp = [None] * ways
        self.clock = 0

    def _key(self, w):
        return (0, w) if self.stamp[w] is None else (1, self.stamp[w])

    def access(self, w: int):
        self.clock += 1
        self.stamp[w] = self.clock

    def victim(self) -> int:
        return min(range(self.ways), key=self._key)

    def repr(self):
        """age rank per way: 0 = next victim, larger = more recently used."""
        order = sorted(range(self.ways), key=self._key)
        rank = [0] * self.ways
        for r, w in enumerate(order):
            rank[w] = r
        return rank

    def state_key(self):
        return tuple(self.repr())


class RefPLRU:
    """Explicit interval tree: node (lo, hi) has a bit; False = victim search goes to the lower half [lo, mid),
    True = to the upper half [mid, hi).  An access sets every bit on the path to point to the *other* half."""

    def __init__(self, ways: int):
        assert ways >= 1 and ways & (ways - 1) == 0
        self.ways = ways
        self.bits = {}
        self._init(0, ways)

    def _init(self, lo, hi):
        if hi - lo >= 2:
            self.bits[(lo, hi)] = False
            mid = (lo + hi) // 2
            self._init(lo, mid)
            self._init(mid, hi)

    def access(self, w: int):
        lo, hi = 0, self.ways
        while hi - lo >= 2:
            mid = (lo + hi) // 2
            if w < mid:
                self.bits[(lo, hi)] = True      # accessed block is in the lower half -> point to the upper half
                hi = mid
            else:
                self.bits[(lo, hi)] = False
                lo = mid

    def victim(self) -> int:
        lo, hi = 0, self.ways
        while hi - lo >= 2:
            mid = (lo + hi) // 2
            if self.bits[(lo, hi)]:
                lo = mid
            else:
                hi = mid
        return lo

    def repr(self):
        """bits in level order (root first, each level left to right)."""
        out = []
        level = [(0, self.ways)]
        while level and level[0][1] - level[0][0] >= 2:
            nxt = []
            for lo, hi in level:
                out.append(self.bits[(lo, hi)])
                mid = (lo + hi) // 2
                nxt += [(lo, mid), (mid, hi)]
            level = nxt
        return out

    def state_key(self):
        return tuple(self.repr())


class RefCache:
    def __init__(self, idx_bits: int, blk_bits: int, ways: int, repl: str, write_policy: str):
        self.idx_bits = idx_bits
        self.blk_bits = blk_bits
        self.ways = ways
        self.write_policy = write_policy
        self.nsets = 1 << idx_bits
        self.block_bytes = 4 << blk_bits
        self.tags = [[None] * ways for _ in range(self.nsets)]
        self.policy = [(RefLRU if repl == "lru" else RefPLRU)(ways) for _ in range(self.nsets)]
        self.evictions = 0
        self.evicted_blocks = []   # block base addresses displaced so far

    def split(self, addr: int):
        addr &= 0xFFFFFFFF
        blk = addr >> (self.blk_bits + 2)
        return blk & (self.nsets - 1), blk >> self.idx_bits

    def block_base(self, addr: int) -> int:
        return (addr & 0xFFFFFFFF) >> (self.blk_bits + 2) << (self.blk_bits + 2)

    def resident(self, addr: int) -> bool:
        s, t = self.split(addr)
        return t in self.tags[s]

    def _fill(self, s, t):
        w = self.policy[s].victim()
        if self.tags[s][w] is not None:
            self.evictions += 1
            old = ((self.tags[s][w] << self.idx_bits) | s) << (self.blk_bits + 2)
            self.evicted_blocks.append(old)
        self.tags[s][w] = t
        self.policy[s].access(w)
        return w

    def read(self, addr: int) -> bool:
        """Returns hit. A miss allocates."""
        s, t = self.split(addr)
        if t in self.tags[s]:
            self.policy[s].access(self.tags[s].index(t))
            return True
        self._fill(s, t)
        return False

    def write(self, addr: int) -> bool:
        s, t = self.split(addr)
        if t in self.tags[s]:
            self.policy[s].access(self.tags[s].index(t))
            return True
        if self.write_policy == "wb":
            self._fill(s, t)
        return False

    def resident_map(self):
        """{(set, way): block base address} for valid ways."""
        out = {}
        for s in range(self.nsets):
            for w, t in enumerate(self.tags[s]):
                if t is not None:
                    out[(s, w)] = ((t << self.idx_bits) | s) << (self.blk_bits + 2)
        return out

    def full_sets(self):
        return [s for s in range(self.nsets) if all(t is not None for t in self.tags[s])]

    def copy(self):
        import copy
        return copy.deepcopy(self)
