"""Reference TOY machine and reference TOY assembler (from the help page; no repository code).

Machine: 4096 x 16-bit unified memory, 16-bit wrapping accumulator, 12-bit wrapping program counter, opcodes
0 STO 1 LDA 2 BRZ 3 ADD 4 SUB 5 OR 6 AND 7 XOR 8 NOT 9 INC 10 DEC 11 ZRO 12 NOP (13-15 act as NOP).  Instructions
are fetched from memory when executed; execution stops when the pc passes the last assembled instruction (max_pc).
"""
from __future__ import annotations

MNEMONICS = ["STO", "LDA", "BRZ", "ADD", "SUB", "OR", "AND", "XOR", "NOT", "INC", "DEC", "ZRO", "NOP"]
ADDR_OPS = MNEMONICS[:8]
NOADDR_OPS = MNEMONICS[8:]
M16 = 0xFFFF


def decode(word: int):
    """(effective opcode 0..12, mnemonic, address field)"""
    op = (word >> 12) & 0xF
    if op > 12:
        op = 12
    return op, MNEMONICS[op], word & 0xFFF


def canonical(word: int) -> int:
    """The word an instruction object decoded from `word` encodes to (opcodes 13-15 become 12)."""
    op, _, addr = decode(word)
    return (op << 12) | addr


class ToyMachine:
    def __init__(self, mem: dict | None = None, max_pc: int = -1, accu: int = 0, size: int = 4096):
        self.mem = dict(mem or {})
        self.size = size
        self.max_pc = max_pc
        self.accu = accu & M16
        self.pc = 0                      # address of the next instruction to execute
        self.instructions = 0
        self.cycles = 0
        self.branches = 0
        self.trace = []                  # executed addresses
        self.flags = set()
        self.first_word = None           # word latched for address 0 at load time (harness precondition)

    def rd(self, a):
        return self.mem.get(a % self.size, 0)

    def done(self) -> bool:
        return self.pc > self.max_pc

    def step(self):
        if self.done():
            return None
        at = self.pc
        word = self.rd(at) if not (at == 0 and self.instructions == 0 and self.first_word is not None) else self.first_word
        op, mn, addr = decode(word)
        nxt = (at + 1) & 0xFFF
        if nxt == 0:
            self.flags.add("pc-wrap")
        if (word >> 12) > 12:
            self.flags.add("opcode>=13")
        a = self.accu
        if mn == "STO":
            self.mem[addr] = a
            if addr <= self.max_pc:
                self.flags.add("store-into-program")
                self._stored = getattr(self, "_stored", set()) | {addr}
        elif mn == "LDA":
            a = self.rd(addr)
        elif mn == "BRZ":
            if a == 0:
                nxt = addr
                self.branches += 1
                self.flags.add("brz-taken")
        elif mn == "ADD":
            a = (a + self.rd(addr)) & M16
        elif mn == "SUB":
            a = (a - self.rd(addr)) & M16
        elif mn == "OR":
            a |= self.rd(addr)
        elif mn == "AND":
            a &= self.rd(addr)
        elif mn == "XOR":
            a ^= self.rd(addr)
        elif mn == "NOT":
            a = ~a & M16
        elif mn == "INC":
            a = (a + 1) & M16
        elif mn == "DEC":
            a = (a - 1) & M16
        elif mn == "ZRO":
            a = 0
        if at in getattr(self, "_stored", ()):
            self.flags.add("executed-self-modified")
        self.accu = a
        self.pc = nxt
        self.instructions += 1
        self.cycles += 2
        self.trace.append(at)
        return at, word


# ----------------------------------------------------------------------------------------------------------------
# reference assembler on an AST
# ----------------------------------------------------------------------------------------------------------------
# AST: {"data_first": bool, "directives": bool,
#       "data": [{"name": str, "values": [int, ...]}],
#       "text": [ {"label": str} | {"op": MNEMONIC, "arg": None | {"num": int, "hex": bool} | {"ref": name}, "inline": str|None} ]}

def assemble(ast, mem_size=4096):
    """-> dict(mem={addr: word}, labels={name: addr}, max_pc=int)  (raises KeyError on an unknown name)"""
    labels = {}
    pc = 0
    for item in ast["text"]:
        if "label" in item:
            labels[item["label"]] = pc
        else:
            if item.get("inline"):
                labels[item["inline"]] = pc
            pc += 1
    n_instr = pc
    mem = {}
    top = mem_size - 1          # "downward from the top of memory": the memory the simulation was built with
    for var in ast["data"]:
        k = len(var["values"])
        top -= k
        base = top + 1
        labels[var["name"]] = base
        for i, v in enumerate(var["values"]):
            mem[base + i] = v & M16
    pc = 0
    for item in ast["text"]:
        if "label" in item:
            continue
        op = MNEMONICS.index(item["op"])
        arg = item.get("arg")
        addr = 0
        if arg is not None:
            addr = arg["num"] if "num" in arg else labels[arg["ref"]]
        mem[pc] = (op << 12) | (addr & 0xFFF)
        pc += 1
    return {"mem": mem, "labels": labels, "max_pc": n_instr - 1, "data_low": top + 1}


def render(ast, style):
    """Text of the AST. style: dict(case=[...], indent=[...], comments=[...], blank=[...]) of per-line choices drawn by
    the generator (lists are consumed cyclically)."""
    lines = []
    k = [0]

    def pick(key, default):
        seq = style.get(key) or [default]
        v = seq[k[0] % len(seq)]
        return v

    def emit(s):
        ind = pick("indent", "")
        com = pick("comments", "")
        lines.append(f"{ind}{s}{com}")
        if pick("blank", False):
            lines.append(pick("blankline", ""))
        k[0] += 1

    nk = [0]

    def spell(v, hexa):
        """Decimal and hexadecimal spellings the documented grammar accepts: plain, zero-padded, lower-case hex digits."""
        how = (style.get("num") or [0])[nk[0] % len(style.get("num") or [0])]
        nk[0] += 1
        if hexa:
            return ["0x%X", "0x%x", "0x%04X", "0x%03x"][how % 4] % v
        return [str(v), "0%d" % v, "%05d" % v, str(v)][how % 4]

    def num(a):
        return spell(a["num"], a.get("hex"))

    def text_seg():
        if ast.get("directives") or ast["data"]:
            if ast.get("text_directive", True):
                emit(".text")
        for item in ast["text"]:
            if "label" in item:
                emit(item["label"] + ":")
                continue
            mn = item["op"]
            c = pick("case", "upper")
            mn = mn.lower() if c == "lower" else (mn.capitalize() if c == "mixed" else mn)
            s = mn
            if item.get("arg") is not None:
                a = item["arg"]
                s += " " + (num(a) if "num" in a else a["ref"])
            if item.get("inline"):
                s = item["inline"] + ": " + s
            emit(s)

    def data_seg():
        if ast["data"] or ast.get("data_directive"):
            emit(".data")
        for var in ast["data"]:
            vals = ", ".join(spell(v, (i + len(var["name"])) % 2) for i, v in enumerate(var["values"]))
            emit(f"{var['name']}: .word {vals}")

    if ast.get("data_first"):
        data_seg()
        text_seg()
    else:
        text_seg()
        data_seg()
    return "\n".join(lines) + ("\n" if style.get("trailing_newline", True) else "")
