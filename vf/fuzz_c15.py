"""Optional secondary engine for C15: coverage-guided byte-level fuzzing of load_program with Atheris (libFuzzer),
dictionary-assisted, with the exception-type / line-number oracle inside the target.  Runs as a subprocess
(atheris.Fuzz() never returns); results come back through a small JSON status file and the crash artefact.

usage (internal): python vf/fuzz_c15.py <isa> <out_dir> -runs=N -seed=S [corpus_dir]
"""
from __future__ import annotations

import json
import os
import subprocess
import sys
import tempfile

HERE = os.path.dirname(os.path.abspath(__file__))
VERIF = os.path.dirname(HERE)


def campaign(item, stats, km):
    """Called from the C15 check (thorough tier)."""
    from vf import core
    from vf.props import c15
    deps = os.path.join(VERIF, ".deps")
    env = dict(os.environ, PYTHONPATH=deps + os.pathsep + os.environ.get("PYTHONPATH", ""))
    probe = subprocess.run([sys.executable, "-c", "import atheris"], env=env, capture_output=True)
    if probe.returncode != 0:
        stats.notes.append("atheris not importable: coverage-guided campaign skipped (Hypothesis engines only)")
        return
    for isa in ("riscv", "toy"):
        for corpus_mode in ("seeded", "empty"):
            out = tempfile.mkdtemp(prefix="vf_c15_fuzz_")
            corpus_dir = os.path.join(out, "corpus")
            os.makedirs(corpus_dir)
            if corpus_mode == "seeded":
                for i, c in enumerate(c15.corpus()):
                    if c.get("kind") == "text" and c["isa"] == isa:
                        open(os.path.join(corpus_dir, f"seed{i}"), "w", encoding="utf-8").write(c["text"])
            cmd = [sys.executable, "-B", os.path.join(HERE, "fuzz_c15.py"), isa, out, f"-runs={item['runs'] // 4}",
                   f"-seed={item['seed'] + 1}", "-max_len=200", f"-dict={os.path.join(out, 'dict.txt')}", f"-artifact_prefix={out}/", corpus_dir]
            with open(os.path.join(out, "dict.txt"), "w", encoding="utf-8") as f:
                for w in sorted(set(c15.SOUP + c15.ODD_NUMBERS)):
                    b = w.encode("utf-8")
                    if b and b"\x00" not in b:
                        f.write('"' + "".join("\\x%02x" % x for x in b) + '"\n')
            try:
                r = subprocess.run(cmd, env=dict(env, VERIF_REPO=core.REPO), capture_output=True, text=True, timeout=3000)
            except subprocess.TimeoutExpired:
                stats.notes.append(f"atheris {isa}/{corpus_mode}: time budget hit (inconclusive)")
                continue
            status_file = os.path.join(out, "status.json")
            st = json.load(open(status_file)) if os.path.exists(status_file) else {"execs": 0, "raised": 0}
            stats.evaluations += st["execs"]
            stats.hist[f"atheris:{isa}:{corpus_mode}:execs"] += st["execs"]
            stats.hist[f"atheris:{isa}:{corpus_mode}:texts-that-raise"] += st["raised"]
            vfile = os.path.join(out, "violation.json")
            if os.path.exists(vfile):
                v = json.load(open(vfile))
                viol = core.Violation(v["clause"], v["case"], v["detail"])
                if km is not None and km(viol):
                    stats.known[km(viol)] += 1
                else:
                    stats.violations.append(v)
            import shutil
            shutil.rmtree(out, ignore_errors=True)
    stats.notes.append("atheris campaigns ran: riscv+toy x (seed corpus, empty corpus)")


def main(argv):
    isa, out = argv[1], argv[2]
    sys.path.insert(0, VERIF)
    from vf import core
    core.setup_repo_path()
    import atheris
    with atheris.instrument_imports(include=["architecture_simulator"]):
        import architecture_simulator.isa.riscv.riscv_parser  # noqa: F401
        import architecture_simulator.isa.toy.toy_parser  # noqa: F401
        import architecture_simulator.isa.parser  # noqa: F401
    from vf.props import c15
    state = {"execs": 0, "raised": 0}
    known = core.known_matcher("C15", getattr(c15, "known_match", None))

    def target(data: bytes):
        try:
            text = data.decode("utf-8")
        except UnicodeDecodeError:
            return
        st = core.Stats()
        case = {"kind": "text", "isa": isa, "text": text, "src": "atheris"}
        state["execs"] += 1
        try:
            c15.check_text(case, st)
        except core.Violation as v:
            if known is not None and known(v):
                return
            json.dump({"clause": v.clause, "case": v.case, "detail": v.detail}, open(os.path.join(out, "violation.json"), "w"))
            json.dump(state, open(os.path.join(out, "status.json"), "w"))
            raise
        state["raised"] += int(bool(st.nontrivial))
        if state["execs"] % 2000 == 0:
            json.dump(state, open(os.path.join(out, "status.json"), "w"))

    atheris.Setup([argv[0]] + argv[3:], target)
    try:
        atheris.Fuzz()
    finally:
        json.dump(state, open(os.path.join(out, "status.json"), "w"))


if __name__ == "__main__":
    main(sys.argv)
