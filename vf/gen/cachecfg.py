"""Hypothesis strategies for cache configurations (dicts understood by vf.rvdrive.cache_options)."""
from hypothesis import strategies as st


@st.composite
def cache_config(draw, max_idx=4, max_blk=3, max_ways=8, penalties=True, types=("wb", "wt")):
    repl = draw(st.sampled_from(["lru", "plru"]))
    ways = draw(st.sampled_from([w for w in (1, 2, 4, 8) if w <= max_ways]) if repl == "plru" else st.integers(1, max_ways))
    return {"idx": draw(st.integers(0, max_idx)), "blk": draw(st.integers(0, max_blk)), "ways": ways,
            "type": draw(st.sampled_from(list(types))), "repl": repl,
            "pen": draw(st.sampled_from([0, 1, 2, 3, 5, 7])) if penalties else 0}


def small_cache_config():
    """Tiny geometries where conflicts and evictions are frequent."""
    return cache_config(max_idx=1, max_blk=1, max_ways=2)


def maybe(cfg):
    return st.one_of(st.none(), cfg)
