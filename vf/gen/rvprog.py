"""Hypothesis strategies for RV32IM programs, operand tuples and initial states (abstract form of vf.ref.rv32)."""
from __future__ import annotations

from hypothesis import strategies as st

from vf.ref import rv32
from vf.ref.rv32 import dest

B = 2 ** 14
T = 2 ** 32
M32 = 0xFFFFFFFF

POOL = [0, 0, 1, 1, 2, 2, 3, 3, 5, 8, 10, 17, 31]
reg = st.one_of(st.sampled_from(POOL), st.sampled_from(POOL), st.integers(0, 31))
small_reg = st.sampled_from([0, 1, 2, 3, 5, 10, 17])

IMM12_B = [0, 1, -1, 2, 4, 8, -4, -8, 2047, -2048, 0x7FF, -0x800, 0x3FF, 31, 32, 33, -2047, 1024, -1024, 5, 100]
imm12 = st.one_of(st.sampled_from(IMM12_B), st.integers(-2048, 2047))
shamt = st.one_of(st.sampled_from([0, 1, 31, 16, 4]), st.integers(0, 31))
imm20 = st.one_of(st.sampled_from([0, 1, -1, 0x7FFFF, -0x80000, 4, 0x80, 0xFFFFF - (1 << 20) + 1, 5]),
                  st.integers(-(1 << 19), (1 << 19) - 1))

VAL_B = [0, 1, 2, M32, M32 - 1, 0x80000000, 0x7FFFFFFF, 0x80000001, B, B + 4, B + 1, B - 1, B - 4, T - 4, T - 1,
         T - 8, 0x7FF, 0x800, 0xFFF, 31, 32, 33, 0xFFFF, 0x10000, 0x8000, 0xFF, 0x80, 4, 8, 0xFFFFF800, 0x55555555,
         0xAAAAAAAA, 3, 5, 7, 10, 93, 100, 0x12345678, 0xDEADBEEF, 0xFFFF0000, 1 << 20]
val32 = st.one_of(st.sampled_from(VAL_B), st.sampled_from(VAL_B), st.integers(0, M32),
                  st.builds(lambda b, d: (b + d) & M32, st.sampled_from([B, T, 0x80000000, 0]), st.integers(-40, 40)))

ECALL_CODES = [1, 1, 2, 4, 11, 34, 35, 36, 10, 93, 0, 3, 5, 12, 94, 2 ** 31, M32]


def branch_imm(i_rel=st.integers(-4, 6)):
    """pc-relative byte offsets: mostly whole instructions nearby, sometimes misaligned or far."""
    return st.one_of(
        st.builds(lambda k: 4 * k, i_rel), st.builds(lambda k: 4 * k, i_rel), st.builds(lambda k: 4 * k, st.integers(1, 6)),
        st.sampled_from([0, 2, -2, 6, 4094, -4096, 2048, -2048]),
        st.builds(lambda k: 2 * k, st.integers(-2048, 2047)),
    )


def jal_imm():
    return st.one_of(
        st.builds(lambda k: 4 * k, st.integers(-4, 8)), st.builds(lambda k: 4 * k, st.integers(1, 6)),
        st.sampled_from([0, 2, -2, (1 << 20) - 2, -(1 << 20), 4096]),
        st.builds(lambda k: 2 * k, st.integers(-(1 << 19), (1 << 19) - 1)),
    )


def instruction(ops=None, aligned_only=False, mem_base=8):
    """One instruction of the abstract form. With aligned_only, loads/stores go through x<mem_base> with aligned,
    in-range offsets and x<mem_base> is never a destination (needed wherever a data cache is on)."""
    ops = ops or rv32.ALL_OPS
    rd = reg if not aligned_only else reg.map(lambda r: 1 if r == mem_base else r)

    @st.composite
    def one(draw):
        op = draw(st.sampled_from(ops))
        if op in rv32.R_OPS:
            return [op, draw(rd), draw(reg), draw(reg)]
        if op in rv32.I_OPS:
            return [op, draw(rd), draw(reg), draw(imm12)]
        if op in rv32.SH_OPS:
            return [op, draw(rd), draw(reg), draw(shamt)]
        if op in rv32.LOAD_OPS:
            w = rv32.LOAD_W[op]
            if aligned_only:
                if draw(st.integers(0, 6)) == 0:
                    # x0 + negative offset: the effective address is a NEGATIVE number before it is reduced modulo 2^32
                    return [op, draw(rd), 0, -w * draw(st.integers(1, 32 // w))]
                return [op, draw(rd), mem_base, w * draw(st.integers(0, draw(st.sampled_from([8, 16, 48])) // w))]
            if draw(st.integers(0, 3)):
                return [op, draw(rd), draw(st.sampled_from([8, 8, 8, 2, 3])), draw(st.integers(-8, 40))]
            return [op, draw(rd), draw(reg), draw(imm12)]
        if op in rv32.STORE_OPS:
            w = rv32.STORE_W[op]
            if aligned_only:
                if draw(st.integers(0, 6)) == 0:
                    return [op, 0, draw(reg), -w * draw(st.integers(1, 32 // w))]
                return [op, mem_base, draw(reg), w * draw(st.integers(0, draw(st.sampled_from([8, 16, 48])) // w))]
            if draw(st.integers(0, 3)):
                return [op, draw(st.sampled_from([8, 8, 8, 2, 3])), draw(reg), draw(st.integers(-8, 40))]
            return [op, draw(reg), draw(reg), draw(imm12)]
        if op in rv32.BRANCH_OPS:
            return [op, draw(reg), draw(reg), draw(branch_imm())]
        if op in rv32.U_OPS:
            return [op, draw(rd), draw(imm20)]
        if op == "jal":
            return [op, draw(rd), draw(jal_imm())]
        if op == "jalr":
            return [op, draw(rd), draw(reg), draw(st.one_of(st.sampled_from([0, 4, 8, -4, 1, 3, 12, 16]), imm12))]
        return ["ecall"]

    return one()


@st.composite
def template(draw, aligned_only=False):
    """Structured blocks: counted loop, call/return, print / exit sequences, load-use, store-load."""
    kind = draw(st.sampled_from(["loop", "call", "print", "exit", "loaduse", "storeload", "printstr", "jalrwrap", "rmw", "bigloop", "nested", "negalias", "negstores"]))
    body_ops = [o for o in rv32.ALL_OPS if o not in rv32.BRANCH_OPS + ["jal", "jalr", "ecall"]]
    body = lambda n: draw(st.lists(instruction(body_ops, aligned_only), min_size=0, max_size=n))  # noqa: E731
    if kind == "negalias":
        # the SAME load twice with a store to that location in between; the load names it by a negative number
        # (x0 - k), the store either likewise or through a register holding the wrapped address 2^32 - k
        w = draw(st.sampled_from([4, 4, 2, 1]))
        k = w * draw(st.integers(1, 8)) if aligned_only or draw(st.booleans()) else draw(st.integers(1, 16))
        lop = draw(st.sampled_from({4: ["lw"], 2: ["lh", "lhu"], 1: ["lb", "lbu"]}[w]))
        sop = {4: "sw", 2: "sh", 1: "sb"}[draw(st.sampled_from([w, w, 1 if aligned_only else 4]))]
        rs = draw(st.sampled_from([1, 2, 3, 5]))
        seq = [[lop, draw(st.sampled_from([9, 11, 12])), 0, -k]]
        if draw(st.booleans()):
            seq.append([sop, 0, rs, -k])
        else:
            seq += [["addi", 13, 0, -k], [sop, 13, rs, 0]]
        return seq + [[lop, draw(st.sampled_from([9, 14, 15])), 0, -k]]
    if kind == "negstores":
        # the same location STORED to repeatedly with changing values, named by a negative number (x0 - k) or through a
        # register holding the wrapped address; whatever was displayed or remembered after the first store must follow
        w = draw(st.sampled_from([4, 4, 2, 1]))
        k = w * draw(st.integers(1, 8)) if aligned_only or draw(st.booleans()) else draw(st.integers(1, 16))
        sop = {4: "sw", 2: "sh", 1: "sb"}[w]
        rs = draw(st.sampled_from([1, 2, 3, 5]))
        seq = [[sop, 0, rs, -k]]
        for _ in range(draw(st.integers(1, 2))):
            seq.append(draw(st.sampled_from([["addi", rs, rs, 1], ["xori", rs, rs, -1], ["addi", rs, 0, 0x5A], ["addi", 0, 0, 0]])))
            if draw(st.booleans()):
                seq.append([sop, 0, rs, -k])
            else:
                seq += [["addi", 13, 0, -k], [sop, 13, rs, 0]]
        return seq
    if kind == "nested":
        # inner loop smaller than a cache set, outer loop larger: re-use followed by new blocks (separates LRU from PLRU)
        b1 = [i for i in draw(st.lists(instruction(body_ops, aligned_only), min_size=0, max_size=2)) if dest(i) not in (6, 7)]
        b2 = [i for i in draw(st.lists(instruction(body_ops, aligned_only), min_size=1, max_size=5)) if dest(i) not in (6, 7)]
        inner = b1 + [["addi", 6, 6, -1], ["bne", 6, 0, -4 * (len(b1) + 1)]]
        outer = [["addi", 6, 0, draw(st.integers(2, 3))]] + inner + b2 + [["addi", 7, 7, -1]]
        return [["addi", 7, 0, draw(st.integers(2, 3))]] + outer + [["bne", 7, 0, -4 * len(outer)]]
    if kind == "bigloop":
        # a loop whose body spans several cache blocks, executed 2-3 times
        cnt = draw(st.sampled_from([6, 7]))
        b = [i for i in draw(st.lists(instruction(body_ops, aligned_only), min_size=4, max_size=9)) if dest(i) != cnt]
        n = draw(st.integers(2, 3))
        return [["addi", cnt, 0, n]] + b + [["addi", cnt, cnt, -1], ["bne", cnt, 0, -4 * (len(b) + 1)]]
    if kind == "loop":
        cnt = draw(st.sampled_from([5, 6, 7]))  # counter register (not used by the pool-biased body most of the time)
        b = [i for i in body(3) if rv32.dest(i) != cnt]
        n = draw(st.integers(1, 4))
        return [["addi", cnt, 0, n]] + b + [["addi", cnt, cnt, -1], ["bne", cnt, 0, -4 * (len(b) + 1)]]
    if kind == "call":
        b1 = [i for i in body(2) if rv32.dest(i) != 1]
        b2 = [i for i in body(2) if rv32.dest(i) != 1]
        # jal ra, F ; <b1> ; jal x0, END ; F: <b2> ; jalr x0, ra, 0 ; END:
        return [["jal", 1, 4 * (len(b1) + 2)]] + b1 + [["jal", 0, 4 * (len(b2) + 2)]] + b2 + [["jalr", 0, 1, 0]]
    if kind == "print":
        code = draw(st.sampled_from([1, 2, 11, 34, 35, 36]))
        pre = draw(st.lists(instruction(body_ops, aligned_only), max_size=1))
        return [["addi", 17, 0, code]] + pre + [["ecall"]]
    if kind == "printstr":
        return [["addi", 17, 0, 4], ["addi", 10, 8, draw(st.integers(0, 12))], ["ecall"]]
    if kind == "exit":
        code = draw(st.sampled_from([10, 93]))
        pre = draw(st.lists(instruction(body_ops, aligned_only), max_size=2))
        post = draw(st.lists(instruction(None, aligned_only), max_size=2))
        return [["addi", 17, 0, code]] + pre + [["ecall"]] + post
    if kind == "jalrwrap":
        # indirect jump whose target computation wraps around 2^32 (or has bit 0 set) and lands inside the program
        r = draw(st.sampled_from([1, 2, 3, 5]))
        k = draw(st.sampled_from([-4, -8, -1, -3, -2048]))
        tgt = 4 * draw(st.integers(0, 12)) + draw(st.sampled_from([0, 0, 1]))
        if not -2048 <= tgt - k <= 2047:
            tgt = 4
        gap = draw(st.lists(st.just(["addi", 0, 0, 0]), max_size=3))
        return [["addi", r, 0, k]] + gap + [["jalr", draw(st.sampled_from([0, 1, r])), r, tgt - k]]
    if kind == "rmw":
        # read-modify-write of one location followed by a re-read (block resident before the store)
        r = draw(st.sampled_from([1, 2, 3]))
        off = 4 * draw(st.integers(0, 6))
        sub = draw(st.sampled_from([0, 0, 1, 2, 3]))
        st_op = draw(st.sampled_from(["sw", "sh", "sb"]))
        ld_op = draw(st.sampled_from(["lw", "lh", "lb", "lhu", "lbu"]))
        so = off + (0 if st_op == "sw" else (sub & 2) if st_op == "sh" else sub)
        lo = off + (0 if ld_op == "lw" else (sub & 2) if ld_op in ("lh", "lhu") else sub)
        mod = draw(st.sampled_from([["addi", r, r, 1], ["xori", r, r, -1], ["add", r, r, r], ["addi", 0, 0, 0]]))
        return [["lw", r, 8, off], mod, [st_op, 8, r, so], [ld_op, draw(st.sampled_from([1, 2, 3])), 8, lo]]
    if kind == "loaduse":
        r = draw(st.sampled_from([1, 2, 3]))
        off = 4 * draw(st.integers(0, 6))
        use = draw(st.sampled_from([["add", 2, r, r], ["addi", 3, r, 1], ["sw", 8, r, 4], ["beq", r, 0, 8], ["sub", r, r, 1]]))
        gap = draw(st.lists(st.just(["addi", 0, 0, 0]), max_size=2))
        return [["lw", r, 8, off]] + gap + [use]
    # storeload
    r = draw(st.sampled_from([1, 2, 3]))
    off = 4 * draw(st.integers(0, 6))
    st_op = draw(st.sampled_from(["sw", "sh", "sb"]))
    ld_op = draw(st.sampled_from(["lw", "lh", "lb", "lhu", "lbu"]))
    return [[st_op, 8, r, off], [ld_op, draw(st.sampled_from([1, 2, 3])), 8, off]]


@st.composite
def program(draw, max_len=14, aligned_only=False, ops=None, min_len=1):
    parts = draw(st.lists(st.one_of(instruction(ops, aligned_only).map(lambda i: [i]),
                                    instruction(ops, aligned_only).map(lambda i: [i]),
                                    instruction(ops, aligned_only).map(lambda i: [i]),
                                    template(aligned_only)), min_size=min_len, max_size=max_len))
    prog = [i for p in parts for i in p]
    return prog[: max_len + 6]


@st.composite
def init_regs(draw, mem_base=8):
    """Sparse initial register file {reg: value}; x<mem_base> points into data memory most of the time."""
    regs = {}
    for r in (1, 2, 3, 5, 10, 31):
        if draw(st.booleans()):
            regs[str(r)] = draw(val32)
    regs["17"] = draw(st.one_of(st.sampled_from(ECALL_CODES), st.sampled_from([1, 10, 93, 1, 34]), val32))
    regs[str(mem_base)] = draw(st.one_of(st.just(B), st.just(B), st.just(B + 64), st.sampled_from([T - 64, B - 4, 0, T - 4])))
    for _ in range(draw(st.integers(0, 3))):
        regs[str(draw(st.integers(1, 31)))] = draw(val32)
    return regs


@st.composite
def init_regs_aligned(draw, mem_base=8):
    regs = draw(init_regs(mem_base))
    regs[str(mem_base)] = draw(st.sampled_from([B, B, B + 64, B + 256, T - 64, B + 4096]))
    return regs


@st.composite
def init_mem(draw, bases=(B, B + 64, T - 64)):
    """Sparse initial data memory {word address: value} around the bases the programs use."""
    mem = {}
    for _ in range(draw(st.integers(0, 6))):
        b = draw(st.sampled_from(list(bases)))
        a = b + 4 * draw(st.integers(0, 14))
        if B <= a <= T - 4:
            mem[str(a)] = draw(st.one_of(val32, st.sampled_from([0x00434241, 0x80FF7F01, 0x41424344])))
    return mem


def program_case(max_len=14, aligned_only=False, ops=None, min_len=1):
    return st.builds(lambda p, r, m: {"prog": p, "regs": r, "mem": m},
                     program(max_len, aligned_only, ops, min_len),
                     init_regs_aligned() if aligned_only else init_regs(), init_mem())


MEM_HEAVY_OPS = (rv32.LOAD_OPS + rv32.STORE_OPS) * 6 + ["sw", "lw"] * 4 + rv32.ALL_OPS


def mem_heavy_case(max_len=16):
    """Aligned-access programs dominated by loads/stores (for cache properties)."""
    return program_case(max_len, aligned_only=True, ops=MEM_HEAVY_OPS, min_len=min(8, max_len))
