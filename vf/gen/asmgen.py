"""Hypothesis strategies for RISC-V assembler source ASTs (vf.ref.asm) from the documented grammar."""
from __future__ import annotations

from hypothesis import strategies as st

from vf.ref import asm, rv32

LABELS = ["loop", "end", "l1", "L2", "my_label", "_x", "done", "start", "f", "skip_1", "Outer", "lp2", "addx", "t0_",
          "zero_flag", "fp2", "nopx", "x1a", "lix", "ret_"]
VARS = ["var", "arr", "my_var1", "text1", "z", "buf", "n", "v_2", "Data1", "_tmp", "spx", "word_"]
reg = st.one_of(st.sampled_from([0, 1, 2, 5, 8, 10, 17, 31]), st.integers(0, 31))
tape = st.lists(st.integers(0, 419), min_size=1, max_size=40)

imm12 = st.one_of(st.sampled_from([0, 1, -1, 2047, -2048, 4095, 2048, 0x7FF, 0x800, 100, -100]), st.integers(-2048, 4095))
imm20 = st.one_of(st.sampled_from([0, 1, -1, 0x7FFFF, -0x80000, 0xFFFFF, 0x80000]), st.integers(-(1 << 19), (1 << 20) - 1))
LI_B = [0, 1, -1, 2047, 2048, -2048, -2049, 4095, 4096, 0x7FF, 0x800, 0xFFF, 0x1000, 0x12345678, 0x7FFFFFFF, 0x80000000,
        0xFFFFFFFF, -0x80000000, 0xFFFFF800, 0xFFFFF7FF, 0x7FFFF800, 0x7FFFF7FF, 100000, -100000, 0x00010800, 0xABCDE800]
li_const = st.one_of(st.sampled_from(LI_B), st.integers(-(1 << 31), (1 << 32) - 1),
                     st.builds(lambda hi, lo: (hi << 12) | lo, st.sampled_from([0, 1, 0x7FFFF, 0x80000, 0xFFFFE, 0xFFFFF, 0x12345]),
                               st.integers(0, 4095)))


@st.composite
def data_segment(draw, max_decls=5, names=None):
    names = names if names is not None else draw(st.lists(st.sampled_from(VARS), min_size=0, max_size=max_decls, unique=True))
    decls = []
    for n in names:
        ty = draw(st.sampled_from(["byte", "half", "word", "word", "string", "zero"]))
        if ty == "string":
            body = draw(st.text(alphabet=[c for c in map(chr, range(32, 127)) if c not in '"\\#'], max_size=12))
            # edges that a tokeniser / quote stripper / splitter might trip over (all legal inside a double-quoted string)
            edge = st.sampled_from(["", "", "", "'", "''", " ", "  ", ",", ":", "x:", ".word 1", "0x1F", "-1", "a, b", "(", ")", "[1]", "+", ";", "~", "it's", "%d", "\t"])
            s = draw(edge) + body + draw(edge)
            decls.append({"name": n, "type": "string", "string": s})
        elif ty == "zero":
            decls.append({"name": n, "type": "zero", "n": draw(st.one_of(st.integers(1, 5), st.integers(1, 5),
                                                                          st.sampled_from([511, 512, 513, 1023, 1024, 1500])))})
        else:
            bits = 8 * asm.ELEM[ty]
            vals = st.one_of(st.sampled_from([0, 1, -1, -128, 127, 255, 256, 0x1234, 0xFFFF, 0x10000, 0x12345678, 0xFFFFFFFF, -(1 << 31), 999]),
                             st.integers(-(1 << (bits - 1)), (1 << bits) - 1), st.integers(-(1 << 33), 1 << 33))
            decls.append({"name": n, "type": ty, "values": draw(st.lists(vals, min_size=1, max_size=6))})
    return decls


def _var_ref(draw, decls):
    d = draw(st.sampled_from(decls))
    cnt = len(d["string"]) + 1 if d["type"] == "string" else d["n"] if d["type"] == "zero" else len(d["values"])
    idx = draw(st.one_of(st.none(), st.integers(0, cnt - 1), st.integers(0, cnt - 1)))
    # boundary-directed: elements whose address has low 12 bits around 0x800 / 0x000 (lui/addi carry compensation)
    _, variables, _ = asm.layout(decls, 0x4000)
    addr, size, _n = variables[d["name"]]
    near = []
    for target in (0x800, 0x1000, 0x1800):
        k = -((addr & 0xFFFF) - 0x4000 - target) // size if size else 0
        for kk in (k, k, k, k - 1, k + 1):
            if 0 <= kk < cnt:
                near.append(kk)
    if near and draw(st.booleans()):
        idx = draw(st.sampled_from(near))
    return {"var": d["name"], "idx": idx}


@st.composite
def text_item(draw, decls, labels, n_lines, pseudo_weight=2):
    kinds = ["r", "i", "sh", "load", "store", "branch", "u", "jal", "jalr", "ecall"] + ["pseudo"] * pseudo_weight + ["csr"]
    k = draw(st.sampled_from(kinds))
    form = draw(st.integers(0, 1))
    if k == "r":
        return [draw(st.sampled_from(rv32.R_OPS)), draw(reg), draw(reg), draw(reg)], form
    if k == "i":
        return [draw(st.sampled_from(rv32.I_OPS)), draw(reg), draw(reg), draw(imm12)], form
    if k == "sh":
        return [draw(st.sampled_from(rv32.SH_OPS)), draw(reg), draw(reg), draw(st.integers(0, 31))], form
    if k == "load":
        return [draw(st.sampled_from(rv32.LOAD_OPS)), draw(reg), draw(reg), draw(imm12)], form
    if k == "store":
        return [draw(st.sampled_from(rv32.STORE_OPS)), draw(reg), draw(reg), draw(imm12)], form
    if k == "jalr":
        return ["jalr", draw(reg), draw(reg), draw(imm12)], form
    if k == "u":
        return [draw(st.sampled_from(rv32.U_OPS)), draw(reg), draw(imm20)], form
    if k == "ecall":
        return ["ecall"], form
    if k == "csr":
        if draw(st.booleans()):
            return [draw(st.sampled_from(asm.CSR_OPS)), draw(reg), draw(st.integers(0, 4095)), draw(reg)], form
        return [draw(st.sampled_from(asm.CSRI_OPS)), draw(reg), draw(st.integers(0, 4095)), draw(st.integers(0, 31))], form
    if k in ("branch", "jal"):
        if labels and draw(st.integers(0, 3)):
            tg = {"label": draw(st.sampled_from(labels)), "off": draw(st.one_of(st.none(), st.none(), st.sampled_from([0, 4, 8, 2, 0xC, 0x10])))}
        elif k == "branch":
            tg = {"imm": 2 * draw(st.one_of(st.integers(-8, 12), st.integers(-2048, 2047)))}
        else:
            tg = {"abs": 2 * draw(st.one_of(st.integers(0, 2 * n_lines + 8), st.integers(0, 8191)))}
        if k == "branch":
            return [draw(st.sampled_from(rv32.BRANCH_OPS)), draw(reg), draw(reg), tg], form
        return ["jal", draw(reg), tg], form
    # pseudo
    opts = ["nop", "mv", "li", "li"] + (["la", "ldv", "ldv", "stv"] if decls else [])
    p = draw(st.sampled_from(opts))
    if p == "nop":
        return ["nop"], form
    if p == "mv":
        return ["mv", draw(reg), draw(reg)], form
    if p == "li":
        return ["li", draw(reg), draw(li_const)], form
    if p == "la":
        return ["la", draw(reg), _var_ref(draw, decls)], form
    if p == "ldv":
        return [draw(st.sampled_from(rv32.LOAD_OPS)), draw(reg), _var_ref(draw, decls)], form
    addr_reg = draw(st.integers(1, 31))       # the address register of a store-by-name is overwritten: x0 makes no sense
    return [draw(st.sampled_from(rv32.STORE_OPS)), draw(reg), _var_ref(draw, decls), addr_reg], form


@st.composite
def program_ast(draw, max_lines=25, min_lines=0, with_data=None, pseudo_weight=2):
    decls = draw(data_segment()) if with_data is None else with_data
    labels = draw(st.lists(st.sampled_from(LABELS), max_size=6, unique=True))
    n = draw(st.integers(min_lines, max_lines))
    places = {}
    for l in labels:
        places.setdefault(draw(st.integers(0, n)), []).append(l)
    text = []
    for i in range(n + 1):
        here = list(places.get(i, []))
        inline = None
        if here and i < n and draw(st.booleans()):
            inline = here.pop()
        for l in here:
            text.append({"label": l})
        if i < n:
            ins, form = draw(text_item(decls, labels, n, pseudo_weight))
            text.append({"ins": ins, "inline": inline, "form": form})
    data_first = draw(st.booleans())
    return {"data": decls, "text": text, "data_first": data_first, "text_directive": draw(st.booleans()),
            "data_directive": bool(decls) or draw(st.integers(0, 3)) == 0}
