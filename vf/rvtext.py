"""Source text for an abstract RISC-V program (vf.ref.rv32 form), through the reference renderer (not repr())."""
from __future__ import annotations

from vf.ref import asm, rv32


def to_ast_ins(ins, index):
    op = ins[0]
    if op in rv32.BRANCH_OPS:
        return [op, ins[1], ins[2], {"imm": ins[3]}]
    if op == "jal":
        return [op, ins[1], {"abs": 4 * index + ins[2]}]
    return list(ins)


def render(prog, tape=(0,), trivia=False, prefix=()):
    """prefix: extra AST instructions (e.g. ["li", 8, 16384]) emitted first; branch/jal targets of `prog` are computed
    relative to their final position, assuming every prefix line expands to `plen(line)` instructions."""
    lines = []
    n_prefix = 0
    for p in prefix:
        lines.append({"ins": list(p), "inline": None, "form": 0})
        n_prefix += prefix_len(p)
    for i, ins in enumerate(prog):
        lines.append({"ins": to_ast_ins(ins, i + n_prefix), "inline": None, "form": i % 2})
    ast = {"data": [], "text": lines, "data_first": False, "text_directive": False}
    text, _ = asm.render(ast, list(tape), trivia=trivia)
    return text


def prefix_len(p):
    if p[0] == "li":
        return 1 if -2048 <= p[2] <= 2047 else 2
    return 1
