"""Entry point: ./check <ID> <quick|thorough> [--replay FILE]

exit 0  property held on everything explored (KNOWN-FINDING lines allowed)
exit 1  + "VIOLATION property=<id> replay=<path>" for a violation no listed finding explains
exit 2  + "HARNESS-ERROR ..." when the machinery itself failed (never a verdict about the repository)
"""
from __future__ import annotations

import importlib
import json
import os
import sys
import time
import traceback

sys.path.insert(0, os.path.dirname(os.path.dirname(os.path.abspath(__file__))))

from vf import core  # noqa: E402


def main(argv):
    if len(argv) < 2:
        print("usage: check <ID> <quick|thorough> [--replay FILE]")
        return 2
    prop_id = argv[0].upper()
    tier = argv[1] if len(argv) > 1 and not argv[1].startswith("--") else os.environ.get("VERIF_TIER", "quick")
    replay = None
    if "--replay" in argv:
        replay = argv[argv.index("--replay") + 1]
    if tier not in ("quick", "thorough"):
        print(f"HARNESS-ERROR unknown tier {tier}")
        return 2
    try:
        seed = int(os.environ.get("VERIF_SEED", "1") or "1")
    except ValueError:
        seed = 1
    t0 = time.time()
    try:
        core.setup_repo_path()
        mod_name = f"vf.props.{prop_id.lower()}"
        mod = importlib.import_module(mod_name)
        known_all = [k for k in core.load_known_findings() if k["property"] == prop_id]
        known_open = [k for k in known_all if k["state"] == "open"]
        known_match = core.known_matcher(prop_id, getattr(mod, "known_match", None))

        if replay is not None:
            data = json.load(open(replay, encoding="utf-8"))
            case = data["case"] if isinstance(data, dict) and "case" in data else data
            stats = core.Stats()
            try:
                try:
                    mod.check(case, stats)
                except (core.Violation, core.HarnessError):
                    raise
                except Exception as e:
                    v2 = core.repo_exception_as_violation(e, case)
                    if v2 is None:
                        raise
                    raise v2 from e
            except core.Violation as v:
                print(f"replayed: clause={v.clause} detail={v.detail[:2000]}")
                print(f"VIOLATION property={prop_id} replay={replay}")
                return 1
            print(f"replay of {replay}: property {prop_id} holds on this case")
            return 0

        total = core.Stats()
        # 1. regression corpus + repro of every known finding (plain, no Hypothesis)
        no_corpus = bool(os.environ.get("VERIF_NO_CORPUS"))  # sensitivity runs: judge the generated search alone
        corpus_cases = list(mod.corpus()) if hasattr(mod, "corpus") and not no_corpus else []
        cdir = os.path.join(core.VERIF_DIR, "corpus", prop_id)
        if os.path.isdir(cdir) and not no_corpus:
            for fn in sorted(os.listdir(cdir)):
                if fn.endswith(".json"):
                    d = json.load(open(os.path.join(cdir, fn), encoding="utf-8"))
                    corpus_cases.append(d["case"] if isinstance(d, dict) and "case" in d else d)
        still_failing_known = set()
        for case in corpus_cases:
            try:
                try:
                    mod.check(case, total)
                except (core.Violation, core.HarnessError):
                    raise
                except Exception as e:
                    v2 = core.repo_exception_as_violation(e, case)
                    if v2 is None:
                        raise
                    raise v2 from e
            except core.Violation as v:
                key = known_match(v) if known_match else None
                if key:
                    still_failing_known.add(key)
                    total.known[key] += 1
                else:
                    total.violations.append({"clause": v.clause, "case": v.case, "detail": v.detail})
        total.hist["corpus_cases"] += len(corpus_cases)

        # 2. generated search, sharded
        items = mod.shards(tier, seed)
        procs = int(os.environ.get("VERIF_PROCS", "0") or 0) or (4 if tier == "quick" else 16)
        st = core.run_shards(mod_name, items, procs)
        total.merge(st)

        # 3. verdict
        for k in known_open:
            if k["key"] in still_failing_known or total.known.get(k["key"], 0) > 0:
                print(f"KNOWN-FINDING: property={prop_id} {k['text']}")
        # de-duplicate violations by clause
        seen = {}
        for v in total.violations:
            seen.setdefault(v["clause"], v)
        wall = time.time() - t0
        extra = {}
        if getattr(mod, "EXHAUSTIVE", None) and hasattr(mod, "exhaustive_claim"):
            extra.update(mod.exhaustive_claim(tier, total))
        core.write_evidence(prop_id, tier, seed, getattr(mod, "LEVEL", "exploration"), mod.RULE, total, wall,
                            getattr(mod, "ASSUMPTIONS", []), len(seen), extra)
        print(f"{prop_id} {tier} seed={seed}: evaluations={total.evaluations} distinct_nontrivial="
              f"{len(total.nontrivial) + total.nt_extra} violations={len(seen)} known_skipped={sum(total.known.values())} "
              f"wall={wall:.1f}s")
        if seen:
            for clause, v in seen.items():
                path = core.write_replay(prop_id, v)
                print(f"  clause={clause} detail={v['detail'][:600]}")
                print(f"VIOLATION property={prop_id} replay={path}")
            return 1
        return 0
    except core.HarnessError as e:
        print(f"HARNESS-ERROR property={prop_id} {e}")
        return 2
    except Exception as e:
        print(f"HARNESS-ERROR property={prop_id} {type(e).__name__}: {e}")
        traceback.print_exc()
        return 2


if __name__ == "__main__":
    sys.exit(main(sys.argv[1:]))
