"""Bridge between the abstract instruction form (vf.ref.rv32) and the repository's simulator objects.
Only construction and observation live here - no expected values are computed from repository code."""
from __future__ import annotations

from vf import core
from vf.ref import rv32
from vf.ref.bytestore import riscv_store

M32 = 0xFFFFFFFF


def mk_ins(ins, pc=0):
    """Instantiate the repository's instruction object for an abstract instruction located at `pc`."""
    from architecture_simulator.isa.riscv import rv32i_instructions as R
    op = ins[0]
    cls = getattr(R, op.upper())
    if op == "jal":
        return cls(ins[1], ins[2], pc + ins[2])
    if op == "ecall":
        return cls()
    return cls(*ins[1:])


def cache_options(c):
    """c = None or dict(idx, blk, ways, type, repl, pen)."""
    from architecture_simulator.uarch.memory.cache import CacheOptions
    if not c:
        return CacheOptions(False, 0, 0, 1, "wb", "lru", 0)
    return CacheOptions(True, c["idx"], c["blk"], c["ways"], c.get("type", "wb"), c.get("repl", "lru"), c.get("pen", 0))


def new_sim(mode="single", detect=True, dcache=None, icache=None, state_first=False):
    from architecture_simulator.simulation.riscv_simulation import RiscvSimulation
    if state_first:
        # two-step construction (as the repository's tests do it): the options are given to the architectural state, the
        # simulation wraps that state
        from architecture_simulator.uarch.riscv.riscv_architectural_state import RiscvArchitecturalState
        m = "five_stage_pipeline" if mode == "five" else "single_stage_pipeline"
        state = RiscvArchitecturalState(pipeline_mode=m, detect_data_hazards=detect, data_cache_options=cache_options(dcache),
                                        instruction_cache_options=cache_options(icache))
        return RiscvSimulation(state=state, mode=m)
    return RiscvSimulation(mode="five_stage_pipeline" if mode == "five" else "single_stage_pipeline",
                           detect_data_hazards=detect, data_cache=cache_options(dcache),
                           instruction_cache=cache_options(icache))


def load(sim, prog, regs=None, mem=None, pc=0):
    """prog: list (consecutive from 0) or {address: ins}. regs: {reg: value}. mem: {word address: value}, written
    below any cache exactly as the assembler preloads data (only legal before the first cached access)."""
    import fixedint
    st = sim.state
    if isinstance(prog, dict):
        for a, ins in prog.items():
            st.instruction_memory.write_instruction(int(a), mk_ins(ins, int(a)))
    else:
        st.instruction_memory.write_instructions([mk_ins(ins, 4 * i) for i, ins in enumerate(prog)])
    for r, v in (regs or {}).items():
        st.register_file.registers[int(r)] = fixedint.UInt32(v & M32)
    for a, v in (mem or {}).items():
        st.memory.write_word(int(a), fixedint.UInt32(v & M32), directly_write_to_lower_memory=True)
    st.program_counter = pc


def ref_machine(prog, regs=None, mem=None, pc=0, data_lo=2 ** 14):
    program = {int(a): i for a, i in prog.items()} if isinstance(prog, dict) else {4 * i: ins for i, ins in enumerate(prog)}
    store = riscv_store(data_lo)
    for a, v in (mem or {}).items():
        store.write(int(a), 4, v & M32)
    return rv32.Machine(program, {int(k): v for k, v in (regs or {}).items()}, store, pc, data_lo)


def regs_of(sim):
    return [int(r) & M32 for r in sim.state.register_file.registers]


def flat_memory(sim):
    """The backing flat Memory object (below a cache if there is one)."""
    m = sim.state.memory
    return getattr(m, "memory", m)


def backing_bytes(sim):
    return {int(a): int(v) for a, v in flat_memory(sim).memory_file.items()}


def retired_address(sim):
    """Address of the instruction that retired in the step just executed (five-stage), or None."""
    prs = sim.state.pipeline.pipeline_registers
    if len(prs) != 5:
        raise core.HarnessError("five-stage pipeline expected")
    return prs[4].address_of_instruction


def metrics(sim):
    pm = sim.state.performance_metrics
    return {"instructions": pm.instruction_count, "branches": pm.branch_count, "procedures": pm.procedure_count,
            "cycles": pm.cycles, "stalls": pm.stalls, "flushes": pm.flushes}
