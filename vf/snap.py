"""State snapshots and inspection-call tables shared by C13 (lifecycle), C16 (inspection purity) and C11."""
from __future__ import annotations


def plain(o, depth=0):
    """Recursively convert inspection results into comparable plain data."""
    if o is None or isinstance(o, (bool, int, float, str)):
        return o
    if isinstance(o, (list, tuple)):
        return [plain(x, depth + 1) for x in o]
    if isinstance(o, dict):
        return {str(k): plain(v, depth + 1) for k, v in o.items()}
    if hasattr(o, "__dict__") and depth < 8:
        return {"__class__": type(o).__name__, **{k: plain(v, depth + 1) for k, v in vars(o).items()}}
    try:
        return int(o)
    except Exception:
        return repr(o)


def strip_time(s: str) -> str:
    return "\n".join(l for l in s.split("\n") if not l.startswith(("execution time", "instructions per second")))


def rv_snapshot(sim):
    st = sim.state
    pm = st.performance_metrics
    flat = getattr(st.memory, "memory", st.memory)
    snap = {
        "regs": [int(r) for r in st.register_file.registers],
        "pc": st.program_counter, "output": st.output, "exit": st.exit_code,
        "metrics": {"instructions": pm.instruction_count, "branches": pm.branch_count, "procedures": pm.procedure_count,
                    "cycles": pm.cycles, "stalls": pm.stalls, "flushes": pm.flushes},
        "memory": {int(a): int(v) for a, v in flat.memory_file.items()},
        "listing": [list(x) for x in st.instruction_memory.get_representation()],
        "dcache_stats": plain(st.memory.get_cache_stats()), "icache_stats": plain(st.instruction_memory.get_cache_stats()),
        "dcache": plain(st.memory.cache_repr()), "icache": plain(st.instruction_memory.cache_repr()),
        "pipeline": [repr(pr) for pr in st.pipeline.pipeline_registers],
        "stalled": repr(st.pipeline.stalled), "done": bool(sim.is_done()), "has_started": bool(sim.has_started),
    }
    return snap


RV_INSPECT = ["get_register_entries", "get_data_memory_entries", "get_instruction_memory_entries", "get_data_cache_entries",
              "get_data_cache_stats", "get_instruction_cache_entries", "get_instruction_cache_stats", "svg", "get_performance_metrics_str",
              "get_output", "get_exit_code", "is_done", "has_instructions"]


def rv_call(sim, name):
    if name == "svg":
        return plain(sim.get_riscv_five_stage_svg_update_values() if sim.mode == "five_stage_pipeline"
                     else sim.get_riscv_single_stage_svg_update_values())
    r = getattr(sim, name)()
    if name == "get_performance_metrics_str":
        return strip_time(r)
    return plain(r)


def toy_snapshot(sim):
    from vf import toydrive
    s = toydrive.snapshot(sim)
    s["vis"] = plain(sim.state.visualisation_values)
    s["has_started"] = bool(sim.has_started)
    return s


TOY_INSPECT = ["get_register_representations", "get_memory_table_entries", "get_toy_svg_update_values", "get_performance_metrics_str",
               "is_done", "has_instructions"]


def toy_call(sim, name):
    r = getattr(sim, name)()
    if name == "get_performance_metrics_str":
        return strip_time(r)
    return plain(r)


def diff_keys(a, b):
    return [k for k in a if a.get(k) != b.get(k)] + [k for k in b if k not in a]
