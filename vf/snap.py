"""State snapshots and inspection-call tables shared by C13 (lifecycle), C16 (inspection purity) and C11."""
from __future__ import annotations


def plain(o, depth=0):
    """Recursively convert inspection results into comparable plain data."""
    if o is None or isinstance(o, (bool, int, float, str)):
        return o
    if isinstance(o, (list, tuple)):
        return [plain(x, depth + 1) for x in o]
    if isinstance(o, dict):
        return {str(k): plain(v, depth + 1) for k, v in o.items()}
    if hasattr(o, "__dict__") and depth < 8:
        return {"__class__": type(o).__name__, **{k: plain(v, depth + 1) for k, v in vars(o).items()}}
    try:
        return int(o)
    except Exception:
        return repr(o)


def strip_time(s: str) -> str:
    return "\n".join(l for l in s.split("\n") if not l.startswith(("execution time", "instructions per second")))


def rv_snapshot(sim):
    st = sim.state
    pm = st.performance_metrics
    flat = getattr(st.memory, "memory", st.memory)
    snap = {
        "regs": [int(r) for r in st.register_file.registers],
        "pc": st.program_counter, "output": st.output, "exit": st.exit_code,
        "metrics": {"instructions": pm.instruction_count, "branches": pm.branch_count, "procedures": pm.procedure_count,
                    "cycles": pm.cycles, "stalls": pm.stalls, "flushes": pm.flushes},
        "memory": {int(a): int(v) for a, v in flat.memory_file.items()},
        "listing": [list(x) for x in st.instruction_memory.get_representation()],
        "dcache_stats": plain(st.memory.get_cache_stats()), "icache_stats": plain(st.instruction_memory.get_cache_stats()),
        "dcache": plain(st.memory.cache_repr()), "icache": plain(st.instruction_memory.cache_repr()),
        "pipeline": [repr(pr) for pr in st.pipeline.pipeline_registers],
        "stalled": repr(st.pipeline.stalled), "done": bool(sim.is_done()), "has_started": bool(sim.has_started),
    }
    return snap


RV_INSPECT = ["get_register_entries", "get_data_memory_entries", "get_instruction_memory_entries", "get_data_cache_entries",
              "get_data_cache_stats", "get_instruction_cache_entries", "get_instruction_cache_stats", "svg", "get_performance_metrics_str",
              "get_output", "get_exit_code", "is_done", "has_instructions"]


def rv_call(sim, name):
    if name == "svg":
        return plain(sim.get_riscv_five_stage_svg_update_values() if sim.mode == "five_stage_pipeline"
                     else sim.get_riscv_single_stage_svg_update_values())
    r = getattr(sim, name)()
    if name == "get_performance_metrics_str":
        return strip_time(r)
    return plain(r)


def toy_snapshot(sim):
    from vf import toydrive
    s = toydrive.snapshot(sim)
    s["vis"] = plain(sim.state.visualisation_values)
    s["has_started"] = bool(sim.has_started)
    return s


TOY_INSPECT = ["get_register_representations", "get_memory_table_entries", "get_toy_svg_update_values", "get_performance_metrics_str",
               "is_done", "has_instructions"]


def toy_call(sim, name):
    r = getattr(sim, name)()
    if name == "get_performance_metrics_str":
        return strip_time(r)
    return plain(r)


def diff_keys(a, b):
    return [k for k in a if a.get(k) != b.get(k)] + [k for k in b if k not in a]


# ------------------------------------------------------------------------------------------------------------
# process-global state: class attributes and module globals of the package that are plain data (lists, dicts, sets,
# numbers, strings).  A read-only query that edits one of them changes later results of EVERY simulation in the
# process - also of the "uninspected" twin - so twins cannot see it; the fingerprint before/after the query can.
def _fp(v, depth=5):
    if v is None or isinstance(v, (bool, int, float, str, bytes)):
        return v
    if depth == 0:
        return "<deep>"
    if isinstance(v, (list, tuple)):
        return [type(v).__name__] + [_fp(x, depth - 1) for x in v]
    if isinstance(v, dict):
        return {"dict": sorted(((_key(k), _fp(x, depth - 1)) for k, x in v.items()), key=lambda kv: kv[0])}
    if isinstance(v, (set, frozenset)):
        return {"set": sorted(_key(x) for x in v)}
    if isinstance(v, type):
        return "<class %s>" % v.__qualname__
    return "<%s>" % type(v).__name__


def _key(k):
    return k.__qualname__ if isinstance(k, type) else repr(k) if isinstance(k, (int, str, bool, float, tuple, type(None))) else "<%s>" % type(k).__name__


_TARGETS = {"n": -1, "list": []}


def _targets():
    """(label, owner dict, attribute name) of every plain-data class attribute / module global of the package; the scan
    is repeated whenever further modules have been imported."""
    import sys
    import types
    n = sum(1 for m in sys.modules if m.startswith("architecture_simulator"))
    if n == _TARGETS["n"]:
        return _TARGETS["list"]
    out = []
    for mname, mod in list(sys.modules.items()):
        if mod is None or not mname.startswith("architecture_simulator"):
            continue
        for name, val in list(vars(mod).items()):
            if name.startswith("__"):
                continue
            if isinstance(val, type):
                if val.__module__ != mname:
                    continue
                for an, av in list(vars(val).items()):
                    if an.startswith("_abc_") or an.startswith("__") or (an.startswith("_") and an.endswith("_")) \
                            or isinstance(av, (types.FunctionType, classmethod, staticmethod, property, type)) or callable(av):
                        continue
                    out.append((f"{mname}.{val.__qualname__}.{an}", vars(val), an))
            elif isinstance(val, (list, dict, set, int, float, str, tuple)) and not isinstance(val, bool):
                out.append((f"{mname}.{name}", vars(mod), name))
    _TARGETS["n"], _TARGETS["list"] = n, out
    return out


def global_fingerprint():
    return {label: _fp(owner.get(attr, "<deleted>")) for label, owner, attr in _targets()}


def fingerprint_diff(a, b):
    return sorted(k for k in set(a) | set(b) if a.get(k) != b.get(k))
