"""Shared machinery: violations, statistics, Hypothesis driver, sharding, evidence, replay files.

Every check is a pure function `check(case, stats)` of a JSON-serialisable `case`; Hypothesis strategies (or
exhaustive enumerators) produce cases, a failing case is shrunk by Hypothesis and written verbatim as the replay
file, and `--replay` feeds that file to the same `check` without Hypothesis.
"""
from __future__ import annotations

import hashlib
import json
import os
import sys
import time
import traceback
from collections import Counter

VERIF_DIR = os.path.dirname(os.path.dirname(os.path.abspath(__file__)))
REPO = os.path.abspath(os.environ.get("VERIF_REPO", "/repo"))
# evidence/ and replays/ are written below OUT_DIR (= /verif, except when the sensitivity tool redirects them)
OUT_DIR = os.path.abspath(os.environ.get("VERIF_OUT", VERIF_DIR))


class Violation(Exception):
    """The code under test broke the property on `case` (oracle clause `clause`)."""

    def __init__(self, clause: str, case, detail=""):
        super().__init__(f"{clause}: {detail}")
        self.clause = clause
        self.case = case
        self.detail = detail if isinstance(detail, str) else repr(detail)

    def __reduce__(self):
        return (Violation, (self.clause, self.case, self.detail))


class HarnessError(Exception):
    """Something is wrong with the checking machinery itself (never reported as a violation)."""


def case_hash(obj) -> int:
    s = json.dumps(obj, sort_keys=True, default=str, separators=(",", ":"))
    return int.from_bytes(hashlib.blake2b(s.encode(), digest_size=8).digest(), "big")


class Stats:
    """Per-shard measurements; merged in the parent. Everything in here is counted, nothing is a constant."""

    MAX_SAMPLES = 4

    def __init__(self):
        self.evaluations = 0
        self.assume_distinct = False      # set by enumerators whose cases are pairwise distinct by construction
        self.nt_extra = 0                 # non-trivial cases counted without hashing (distinct by construction)
        self.nontrivial: set[int] = set()
        self.samples: list = []
        self._sample_tags: set[str] = set()
        self.hist: Counter = Counter()
        self.known: Counter = Counter()
        self.violations: list[dict] = []
        self.exhaustive_parts: list[str] = []
        self.notes: list[str] = []
        self.extra: dict = {}

    # -- recording -------------------------------------------------------------------------------------
    def count(self, case, nontrivial: bool, tags=(), sample_tag: str | None = None):
        """Record one oracle execution. `nontrivial` is the property's stated rule evaluated on this case."""
        self.evaluations += 1
        if nontrivial:
            if self.assume_distinct:
                self.nt_extra += 1
            else:
                self.nontrivial.add(case_hash(case))
        for t in tags:
            self.hist[t] += 1
        tag = sample_tag or ("nontrivial" if nontrivial else "trivial")
        if nontrivial and tag not in self._sample_tags and len(self.samples) < self.MAX_SAMPLES:
            self._sample_tags.add(tag)
            self.samples.append({"class": tag, "case": case})

    def tag(self, *tags):
        for t in tags:
            self.hist[t] += 1

    def merge(self, other: "Stats"):
        self.evaluations += other.evaluations
        self.nt_extra += other.nt_extra
        self.nontrivial |= other.nontrivial
        for s in other.samples:
            if len(self.samples) < 8 and s["class"] not in self._sample_tags:
                self._sample_tags.add(s["class"])
                self.samples.append(s)
        self.hist.update(other.hist)
        self.known.update(other.known)
        self.violations.extend(other.violations)
        self.exhaustive_parts.extend(other.exhaustive_parts)
        self.notes.extend(other.notes)
        for k, v in other.extra.items():
            if isinstance(v, (int, float)) and isinstance(self.extra.get(k, 0), (int, float)):
                self.extra[k] = self.extra.get(k, 0) + v
            else:
                self.extra[k] = v


# ----------------------------------------------------------------------------------------------------------
# known findings
# ----------------------------------------------------------------------------------------------------------
def load_known_findings():
    """Parse known_findings.txt -> list of dict(state, property, key, text). Never written at run time."""
    path = os.path.join(VERIF_DIR, "known_findings.txt")
    out = []
    if not os.path.exists(path):
        return out
    for line in open(path, encoding="utf-8"):
        line = line.strip()
        if not line or line.startswith("#"):
            continue
        state, _, rest = line.partition(":")
        state = state.strip()
        rest = rest.strip()
        fields = {}
        words = rest.split(" ")
        text_start = 0
        for i, w in enumerate(words):
            if "=" in w and w.split("=", 1)[0] in ("property", "key"):
                k, v = w.split("=", 1)
                fields[k] = v
                text_start = i + 1
            else:
                break
        out.append({"state": state, "property": fields.get("property"), "key": fields.get("key"),
                    "text": " ".join(words[text_start:])})
    return out


def known_matcher(prop_id: str, match_fn):
    """match_fn(Violation) -> key or None recognises the *specific* listed failures; only keys that are listed as
    `open:` for this property in known_findings.txt are honoured."""
    keys = {k["key"] for k in load_known_findings() if k["property"] == prop_id and k["state"] == "open"}
    if not keys or match_fn is None:
        return None

    def m(v):
        k = match_fn(v)
        return k if k in keys else None

    return m


# ----------------------------------------------------------------------------------------------------------
# Hypothesis driver
# ----------------------------------------------------------------------------------------------------------
class _CallTimeout(BaseException):
    pass


def call_with_limit(fn, seconds, clause, case, what):
    """Call fn() - a repository call that the reference says finishes after a known, small number of steps (run() on a
    program that stops within a few hundred instructions) - under a generous wall-clock watchdog (seconds is >= 1000 x
    the expected time): if it has not returned by then it never will, which is a violation, not a hung check.  Only usable
    in the main thread of a (worker) process; elsewhere the call is made unguarded."""
    import signal
    import threading
    if threading.current_thread() is not threading.main_thread():
        return fn()

    def alarm(signum, frame):
        raise _CallTimeout()

    old = signal.signal(signal.SIGALRM, alarm)
    signal.alarm(int(seconds))
    try:
        return fn()
    except _CallTimeout:
        raise Violation(clause, case, f"{what}: still running after {seconds} s although the reference stops within a few hundred steps")
    finally:
        signal.alarm(0)
        signal.signal(signal.SIGALRM, old)


def repo_exception_as_violation(e: BaseException, case):
    """An exception the check did not anticipate: if it was RAISED INSIDE the tree under test (innermost traceback frame
    under VERIF_REPO) while the check was exercising it on inputs the check holds to be valid, the code under test broke
    a promise the check relies on - a violation, reported with the place it came from.  Anything raised in harness code
    (attribute renamed by a refactoring, our own bugs) stays a harness error."""
    tb = e.__traceback__
    frames = []
    while tb is not None:
        frames.append((tb.tb_frame.f_code.co_filename, tb.tb_lineno, tb.tb_frame.f_code.co_name))
        tb = tb.tb_next
    if not frames:
        return None
    repo = os.path.realpath(REPO) + os.sep
    if not os.path.realpath(frames[-1][0]).startswith(repo):
        return None
    where = " <- ".join(f"{os.path.relpath(f, repo)}:{ln} {fn}" for f, ln, fn in reversed(frames[-3:]) if os.path.realpath(f).startswith(repo))
    return Violation("code-under-test-raises:" + type(e).__name__, case, f"{type(e).__name__}: {e!r} raised at {where}")


def guarded(check, stats: Stats, known_match=None, muted=()):
    """Wrap `check(case, stats)`: a violation that a listed open finding explains is counted and skipped, so the
    search continues behind it; a clause already reported in this run (muted) is skipped likewise."""

    def run(case):
        try:
            try:
                check(case, stats)
            except (Violation, HarnessError):
                raise
            except Exception as e:
                v = repo_exception_as_violation(e, case)
                if v is None:
                    raise
                raise v from e
        except Violation as v:
            run.last = v
            if v.clause in muted:
                stats.hist["muted:" + v.clause] += 1
                return
            if known_match is not None:
                key = known_match(v)
                if key:
                    stats.known[key] += 1
                    return
            raise

    run.last = None
    return run


def hyp_search(strategy, check, stats: Stats, n: int, seed: int, known_match=None, shrink=True, rounds=3):
    """Run `check` on `n` cases drawn from `strategy` with a fixed seed; on a violation Hypothesis shrinks it and
    the minimal case is recorded (not raised). Up to `rounds` root causes (distinct clauses) are collected."""
    import hypothesis
    from hypothesis import HealthCheck, Phase, given, settings

    muted: set[str] = set()
    for rnd in range(rounds):
        run = guarded(check, stats, known_match, muted)
        phases = [Phase.generate] + ([Phase.shrink] if shrink else [])

        @hypothesis.seed(seed + 7919 * rnd)
        @settings(max_examples=n, database=None, deadline=None, derandomize=False, report_multiple_bugs=False,
                  suppress_health_check=list(HealthCheck), phases=phases, print_blob=False,
                  verbosity=hypothesis.Verbosity.quiet)
        @given(strategy)
        def test(case):
            run(case)

        try:
            test()
            return
        except Violation as v:
            stats.violations.append({"clause": v.clause, "case": v.case, "detail": v.detail})
            muted.add(v.clause)
        except hypothesis.errors.Flaky as e:
            # the same case failed once and passed (or failed differently) when re-executed: the code under test keeps
            # state between cases (our checks are pure functions of the case). Report the last violation seen.
            v = run.last
            if v is None:
                raise HarnessError(f"hypothesis: {type(e).__name__}: {e}")
            stats.violations.append({"clause": v.clause, "case": v.case,
                                     "detail": "[not reproducible in isolation: state leaks between cases] " + v.detail})
            muted.add(v.clause)
        except hypothesis.errors.HypothesisException as e:  # generator trouble is ours, not the repo's
            raise HarnessError(f"hypothesis: {type(e).__name__}: {e}")


def run_cases(cases, check, stats: Stats, known_match=None, distinct=False):
    """Deterministic enumeration: run `check` over an iterable of cases, collecting (not raising) violations;
    stops collecting a clause after its first hit but keeps going for others. `distinct=True` declares the cases
    pairwise distinct by construction (an enumeration), so non-trivial ones are counted without hashing."""
    seen: set[str] = set()
    run = guarded(check, stats, known_match, seen)
    stats.assume_distinct = distinct
    try:
        for case in cases:
            try:
                run(case)
            except Violation as v:
                stats.violations.append({"clause": v.clause, "case": v.case, "detail": v.detail})
                seen.add(v.clause)
                if v.clause.endswith("does-not-return"):
                    break      # every further case would sit out the same watchdog: the verdict is in, stop enumerating
    finally:
        stats.assume_distinct = False


# ----------------------------------------------------------------------------------------------------------
# sharding
# ----------------------------------------------------------------------------------------------------------
def _shard_entry(args):
    mod_name, item = args
    import importlib
    t0 = time.time()
    try:
        mod = importlib.import_module(mod_name)
        stats = Stats()
        mod.run_shard(item, stats)
        stats.extra["cpu_s"] = time.time() - t0
        return ("ok", stats)
    except HarnessError as e:
        return ("harness", f"{item}: {e}\n{traceback.format_exc()}")
    except Exception as e:  # anything escaping a check that is not a Violation is the harness's fault
        return ("harness", f"{item}: {type(e).__name__}: {e}\n{traceback.format_exc()}")


def run_shards(mod_name: str, items: list, procs: int) -> Stats:
    import multiprocessing as mp
    total = Stats()
    if procs <= 1 or len(items) <= 1:
        results = [_shard_entry((mod_name, it)) for it in items]
    else:
        ctx = mp.get_context("fork")
        with ctx.Pool(min(procs, len(items))) as pool:
            results = pool.map(_shard_entry, [(mod_name, it) for it in items], chunksize=1)
    for kind, payload in results:
        if kind == "harness":
            raise HarnessError(payload)
        total.merge(payload)
    return total


# ----------------------------------------------------------------------------------------------------------
# replay files and evidence
# ----------------------------------------------------------------------------------------------------------
def write_replay(prop_id: str, v: dict) -> str:
    os.makedirs(os.path.join(OUT_DIR, "replays"), exist_ok=True)
    h = "%016x" % case_hash(v["case"])
    clause = "".join(c if c.isalnum() or c in "-_" else "_" for c in v["clause"])[:60]
    rel = os.path.join("replays", f"{prop_id}-{clause}-{h[:10]}.json")
    with open(os.path.join(OUT_DIR, rel), "w", encoding="utf-8") as f:
        json.dump({"property": prop_id, "clause": v["clause"], "detail": v["detail"], "case": v["case"]}, f,
                  indent=1, sort_keys=True, default=str)
    return rel


def write_evidence(prop_id, tier, seed, level, rule, stats: Stats, wall_s, assumptions, n_violations, extra=None):
    os.makedirs(os.path.join(OUT_DIR, "evidence"), exist_ok=True)
    cov = {
        "evaluations": stats.evaluations,
        # enumerated cases are distinct among themselves; a corpus case may coincide with one of them, so count conservatively
        "distinct_nontrivial": len(stats.nontrivial) + max(0, stats.nt_extra - stats.hist.get("corpus_cases", 0)),
        "rule": rule,
        "samples": stats.samples,
        "histogram": dict(sorted(stats.hist.items())),
        "known_finding_cases_skipped": dict(stats.known),
        "exhaustive": False,
    }
    if stats.exhaustive_parts:
        cov["exhaustive_subdomains"] = sorted(set(stats.exhaustive_parts))
    if stats.notes:
        cov["notes"] = sorted(set(stats.notes))
    for k, v in stats.extra.items():
        cov.setdefault(k, round(v, 2) if isinstance(v, float) else v)
    if extra:
        cov.update(extra)
    ev = {
        "property_id": prop_id, "tier": tier, "seed": seed, "level": level, "coverage": cov,
        "assumptions": assumptions, "wall_s": round(wall_s, 2), "violations": n_violations,
    }
    path = os.path.join(OUT_DIR, "evidence", f"{prop_id}.json")
    tmp = path + ".tmp"
    with open(tmp, "w", encoding="utf-8") as f:
        json.dump(ev, f, indent=1, default=str)
    os.replace(tmp, path)
    return path


def setup_repo_path():
    """Make the working tree of the repository under test the first import location and verify it is used."""
    if REPO not in sys.path[:1]:
        sys.path.insert(0, REPO)
    import architecture_simulator  # noqa
    f = os.path.abspath(architecture_simulator.__file__)
    if not f.startswith(REPO + os.sep):
        raise HarnessError(f"architecture_simulator imported from {f}, expected under {REPO}")
