"""Drivers that run a program case on the real simulator (single-cycle or five-stage) and record an observation
trace: executed / retired addresses, registers at each retirement, ordered byte-level memory changes, output
growth, counters, faults.  Observation only - no expectations are computed here."""
from __future__ import annotations

from vf import core, rvdrive

M32 = 0xFFFFFFFF


class Trace:
    def __init__(self):
        self.pcs = []            # single: executed pc per step; five: retired address in retirement order
        self.retire_step = []    # five: step index (1-based) of each retirement
        self.regs_after = []     # register file right after each executed/retired instruction
        self.mem_changes = []    # ordered [(addr, byte)] (within one step sorted by address)
        self.out_growth = []     # ordered non-empty output increments
        self.end = None          # "done" | "bound" | "fault" | "cap"
        self.fault_addr = None
        self.fault_repr = None
        self.fault_regs = None
        self.fault_out = None
        self.havoc = set()       # bytes changed in the faulting step (unspecified)
        self.final_regs = None
        self.final_mem = None
        self.final_out = None
        self.exit_code = None
        self.metrics = None
        self.steps = 0
        self.cycles_after = []   # five/single: performance_metrics.cycles after each step
        self.regs_each_step = []  # five: register file after every step (only when requested)
        self.stall_steps = 0
        self.dstats = None
        self.istats = None


def _mem_diff(prev: dict, cur: dict):
    if cur == prev:
        return []
    ch = []
    for a in cur:
        v = int(cur[a])
        if int(prev.get(a, 0)) != v:
            ch.append((a, v))
    ch.sort()
    return ch


def run(case, mode="single", detect=True, dcache=None, icache=None, max_steps=400, stop_after=None,
        regs_each_step=False, sim_hook=None, pre_step=None):
    """Run `case` (prog, regs, mem). single: at most max_steps instructions. five: at most max_steps cycles, and
    stop once `stop_after` instructions have retired (used for prefix comparison of non-terminating programs)."""
    from architecture_simulator.simulation.runtime_errors import InstructionExecutionException
    sim = rvdrive.new_sim(mode, detect, dcache, icache, state_first=bool(case.get("state_first")))
    rvdrive.load(sim, case["prog"], case.get("regs"), case.get("mem"))
    if sim_hook:
        sim_hook(sim)
    t = Trace()
    flat = rvdrive.flat_memory(sim)
    prev_mem = dict(flat.memory_file)
    prev_out = sim.state.output
    five = mode == "five"
    pm = sim.state.performance_metrics
    while True:
        if sim.is_done():
            t.end = "done"
            break
        if t.steps >= max_steps:
            t.end = "bound" if not five else "cap"
            break
        if five and stop_after is not None and len(t.pcs) >= stop_after:
            t.end = "bound"
            break
        pc_before = sim.state.program_counter
        regs_before = None
        if pre_step:
            pre_step(sim)
        try:
            sim.step()
        except InstructionExecutionException as ex:
            t.end = "fault"
            t.fault_addr = ex.address
            t.fault_repr = ex.instruction_repr
            t.fault_regs = rvdrive.regs_of(sim)
            t.fault_out = sim.state.output
            t.havoc = {a for a, _ in _mem_diff(prev_mem, flat.memory_file)}
            t.steps += 1
            break
        t.steps += 1
        t.cycles_after.append(pm.cycles)
        if five:
            a = rvdrive.retired_address(sim)
            if a is not None:
                t.pcs.append(a)
                t.retire_step.append(t.steps)
                t.regs_after.append(rvdrive.regs_of(sim))
            if regs_each_step:
                t.regs_each_step.append(rvdrive.regs_of(sim))
        else:
            t.pcs.append(pc_before)
            t.regs_after.append(rvdrive.regs_of(sim))
        ch = _mem_diff(prev_mem, flat.memory_file)
        if ch:
            t.mem_changes.extend(ch)
            prev_mem = dict(flat.memory_file)
        out = sim.state.output
        if out != prev_out:
            t.out_growth.append(out[len(prev_out):] if out.startswith(prev_out) else ("<rewritten>", out))
            prev_out = out
    t.final_regs = rvdrive.regs_of(sim)
    t.final_mem = {a: int(v) for a, v in flat.memory_file.items() if int(v) != 0}
    t.final_out = sim.state.output
    t.exit_code = sim.state.exit_code
    t.metrics = rvdrive.metrics(sim)
    t.dstats = sim.state.memory.get_cache_stats()
    t.istats = sim.state.instruction_memory.get_cache_stats()
    t.sim = sim
    return t
