"""Cache access histories: generator + interpreter shared by C03 (transparency), C09 (accounting), C10 (policy
wiring) and C12 (write-through / write-back state invariants).  Each property runs the interpreter separately with
only its own oracle clauses enabled.

case = {"cfg": {idx, blk, ways, type, repl, pen}, "pre": [[word addr, value], ...],
        "ops": [["r", width, addr, counted] | ["w", width, addr, value], ...]}
"""
from __future__ import annotations

import copy
import itertools

from hypothesis import strategies as st

from vf import core, rvdrive
from vf.core import Violation
from vf.gen import cachecfg
from vf.ref.bytestore import riscv_store
from vf.ref.cache import RefCache

B = 2 ** 14
T = 2 ** 32
M32 = 0xFFFFFFFF


def build(cfg):
    """The data memory system exactly as the simulator builds it for these cache options; with cfg["lo"] == 0 the
    cache classes are instead constructed directly on a full-range flat Memory [0, 2^32) (as the repository's own
    cache tests do), which makes tag-0 addresses reachable for small geometries."""
    from architecture_simulator.uarch.riscv.riscv_architectural_state import RiscvArchitecturalState
    if cfg.get("lo", B) == 0:
        from architecture_simulator.uarch.memory.memory import AddressingType, Memory
        from architecture_simulator.uarch.memory.write_back_memory_system import WriteBackMemorySystem
        from architecture_simulator.uarch.memory.write_through_memory_system import WriteThroughMemorySystem
        from architecture_simulator.uarch.riscv.riscv_performance_metrics import RiscvPerformanceMetrics
        pm = RiscvPerformanceMetrics()
        cls = WriteThroughMemorySystem if cfg["type"] == "wt" else WriteBackMemorySystem
        return cls(Memory(AddressingType.BYTE, 32, True), cfg["idx"], cfg["blk"], cfg["ways"], pm, cfg.get("pen", 0), cfg["repl"]), pm
    st_ = RiscvArchitecturalState(data_cache_options=rvdrive.cache_options(cfg))
    return st_.memory, st_.performance_metrics


def _fix(w, v):
    import fixedint
    return {1: fixedint.UInt8, 2: fixedint.UInt16, 4: fixedint.UInt32}[w](v)


def _rd(mem, w):
    return {1: mem.read_byte, 2: mem.read_halfword, 4: mem.read_word}[w]


def _wr(mem, w):
    return {1: mem.write_byte, 2: mem.write_halfword, 4: mem.write_word}[w]


def resident_blocks(mem):
    """{(set, way): (block base, [words])} of valid blocks, read from the public cache representation."""
    out = {}
    rep = mem.cache_repr()
    for s, zet in enumerate(rep.sets):
        for w, blk in enumerate(zet.blocks):
            if blk.valid_bit == "1":
                base = int(blk.address_value_list[0][0], 16)
                out[(s, w)] = (base, [int(v) & M32 for _, v in blk.address_value_list])
    return out


def _stats(mem):
    s = mem.get_cache_stats()
    try:
        return int(s["hits"]), int(s["accesses"]), bool(s["last_hit"])
    except (TypeError, ValueError):
        raise BadCounters(f"get_cache_stats() returned {s!r}: hits/accesses are not plain decimal numbers")


class BadCounters(Exception):
    """The statistics are what the front end prints: plain decimal numbers."""


def check(case, stats, clauses, nontrivial):
    """Batch form: interpret the whole history of `case`."""
    g = stepper(case, clauses, list(case["ops"]))
    next(g)
    for op in case["ops"]:
        g.send(op)
    flags, tags = g.send(None)
    finish(case, stats, flags, tags, nontrivial)


def stepper(case, clauses, known_ops=()):
    """Coroutine form of the interpreter (also driven incrementally by the rule-based state machine, vf.machines):
    after priming with next(), send one operation at a time; send(None) runs the end-of-history checks and yields
    (flags, tags).  `case` is only used for reporting and for cfg/pre; `known_ops` pre-populates the address pool."""
    from architecture_simulator.uarch.memory.memory import MemoryAddressError
    cfg = case["cfg"]
    mem, pm = build(cfg)
    backing = mem.memory

    def cstats():
        try:
            return _stats(mem)
        except BadCounters as ex:
            raise Violation("counter-format", case, str(ex))

    LO = cfg.get("lo", B)
    L = riscv_store(LO)
    models = {"alloc": RefCache(cfg["idx"], cfg["blk"], cfg["ways"], cfg["repl"], cfg["type"]),
              "noalloc": RefCache(cfg["idx"], cfg["blk"], cfg["ways"], cfg["repl"], cfg["type"])}
    pool_words = set()
    for pre in case.get("pre", []):
        a, v = pre[0], pre[1]
        pw = pre[2] if len(pre) > 2 else 4          # preload width (sub-word preloads leave the other bytes unstored)
        _wr(mem, pw)(a, _fix(pw, v), directly_write_to_lower_memory=True)
        L.write(a, pw, v & ((1 << (8 * pw)) - 1))
        pool_words.add(a & M32 & ~3)
    if "accounting" in clauses and cstats() != (0, 0, False):
        raise Violation("preload-counted", case, f"counters after preloads: {cstats()}")
    for op in known_ops:
        if op[0] == "z":
            continue
        a = op[2] & M32
        pool_words.add(a & ~3)
        pool_words.add((a + op[1] - 1) & M32 & ~3)
    pool_words = {a for a in pool_words if LO <= a <= T - 4}
    blk_bytes = 4 << cfg["blk"]

    flags = {"hit": False, "miss_full_set": False, "write_miss": False, "eviction": False, "evict_written": False,
             "read_after_evict_written": False, "wt_write_hit_then_read": False, "rejected": False, "uncounted_miss": False}
    written_blocks = set()
    evicted_written = set()
    wt_hit_words = set()
    tags = set()
    ref = models["alloc"]          # flags are computed on the 'allocating' reading (what the implementation does)
    seen_evictions = 0

    def safe_word(m, a, where):
        try:
            return int(m.read_word(a, update_statistics=False))
        except Exception as ex:
            raise Violation("valid-read-raises", case, f"{where}: uncounted read_word({a:#x}) raised {type(ex).__name__}: {ex}")

    def pool_snapshot(m):
        return {a: safe_word(m, a, "pool snapshot") for a in sorted(pool_words)}

    k = -1
    while True:
        op = yield
        if op is None:
            break
        k += 1
        if op[0] == "z":
            # reset() of the memory system (what load_program does before every load): every layer is cleared, so the
            # logical store, the tag models and the bookkeeping start afresh; counters are judged by their deltas only
            try:
                mem.reset()
            except Exception as ex:
                raise Violation("unexpected-exception", case, f"op {k} reset(): {type(ex).__name__}: {ex}")
            L = riscv_store(LO)
            models = {"alloc": RefCache(cfg["idx"], cfg["blk"], cfg["ways"], cfg["repl"], cfg["type"]),
                      "noalloc": RefCache(cfg["idx"], cfg["blk"], cfg["ways"], cfg["repl"], cfg["type"])}
            ref = models["alloc"]
            seen_evictions = 0
            written_blocks.clear()
            evicted_written.clear()
            wt_hit_words.clear()
            backing = mem.memory
            tags.add("reset")
            if "resident" in clauses and resident_blocks(mem):
                raise Violation("resident-set", case, f"op {k} reset(): blocks still resident {sorted(resident_blocks(mem))[:4]}")
            if "invariant" in clauses:
                _invariants(case, cfg, mem, backing, L, pool_words, blk_bytes, f"after op {k} reset()")
            continue
        if op[0] == "i":
            # pure queries on the memory system itself (what a front end calls after every step): statistics, cache table,
            # memory table, and the residency query of the cache.  They are not accesses: every later operation is judged
            # as if they had not happened, and the answers must describe the current state
            na = op[2] & M32
            h0, a0, last0 = cstats()
            c0 = pm.cycles
            try:
                mem.cache_repr()
                mem.wordwise_repr()
                inside = None
                cache = getattr(mem, "cache", None)
                if cache is not None and hasattr(cache, "contains"):
                    from architecture_simulator.uarch.memory.decoded_address import DecodedAddress
                    inside = bool(cache.contains(DecodedAddress(cfg["idx"], cfg["blk"], na)))
            except Exception as ex:
                raise Violation("unexpected-exception", case, f"op {k} {op} (inspection): {type(ex).__name__}: {ex}")
            tags.add("inspect")
            if (cstats(), pm.cycles) != ((h0, a0, last0), c0):
                raise Violation("inspection-counted", case, f"op {k} {op}: counters {(h0, a0, last0)}->{cstats()}, cycles {c0}->{pm.cycles}")
            if inside is not None and "resident" in clauses and len({m.resident(na) for m in models.values()}) == 1 and inside != ref.resident(na):
                raise Violation("residency-query", case, f"op {k} {op}: contains({na:#x}) = {inside}, reference cache says {ref.resident(na)}")
            if "invariant" in clauses:
                _invariants(case, cfg, mem, backing, L, pool_words, blk_bytes, f"after op {k} {op}")
            continue
        rw, w, addr = op[0], op[1], op[2]
        na = addr & M32
        for pa in (na & ~3, (na + w - 1) & M32 & ~3):
            if LO <= pa <= T - 4:
                pool_words.add(pa)
        crossing = (na & 3) + w > 4
        in_range = L.classify(addr, w) == "ok"
        accept = in_range and not crossing
        h0, a0, last0 = cstats()
        c0 = pm.cycles
        counted = True if rw == "w" else bool(op[3])
        before = None
        if not accept and "transparency" in clauses:
            before = pool_snapshot(copy.deepcopy(mem))
        err = None
        val = None
        try:
            if rw == "r":
                val = int(_rd(mem, w)(addr, update_statistics=counted))
            else:
                _wr(mem, w)(addr, _fix(w, op[3]))
        except (ValueError, MemoryAddressError) as ex:   # ByteOffsetError is a ValueError
            err = ex
        except Exception as ex:
            raise Violation("unexpected-exception", case, f"op {k} {op}: {type(ex).__name__}: {ex}")
        tags.add(f"{rw}{w}:{'ok' if accept else 'cross' if crossing else 'range'}")
        if not accept:
            flags["rejected"] = True
            if "transparency" in clauses:
                if err is None:
                    raise Violation("crossing-accepted" if crossing else "out-of-range-accepted", case,
                                    f"op {k} {op} was accepted" + (f" and returned {val:#x}" if val is not None else ""))
                after = pool_snapshot(copy.deepcopy(mem))
                if after != before:
                    d = [(hex(x), hex(before[x]), hex(after[x])) for x in before if before[x] != after[x]]
                    raise Violation("rejected-access-changed-values", case, f"op {k} {op}: (addr, before, after) {d[:4]}")
            if err is None and rw == "w":
                # accepted although it should not be: logically it is now written (flat-memory semantics)
                if L.classify(addr, w) == "ok":
                    L.write(addr, w, op[3])
            # replacement state after a rejected access is outside every claim: resynchronise the tag models
            if {"accounting", "resident"} & set(clauses):
                raise core.HarnessError("accounting/resident clauses need accepted-only histories")
            continue
        if err is not None:
            raise Violation("valid-access-rejected", case, f"op {k} {op}: {err!r}")
        # ---- accepted access ----
        if rw == "r":
            exp = L.read(addr, w)
            if "transparency" in clauses and val != exp:
                raise Violation("read-value", case, f"op {k} {op}: cached memory returned {val:#x}, flat memory holds {exp:#x}")
            blk = ref.block_base(na)
            if blk in evicted_written:
                flags["read_after_evict_written"] = True
            if (na & ~3) in wt_hit_words:
                flags["wt_write_hit_then_read"] = True
        else:
            L.write(addr, w, op[3])
        # reference caches
        hits = {}
        for name, m in models.items():
            if rw == "r":
                if counted or name == "alloc":
                    was_full = m.split(na)[0] in m.full_sets()
                    hits[name] = m.read(na)
                    if name == "alloc":
                        if not hits[name] and was_full:
                            flags["miss_full_set"] = True
                        if not counted and not hits[name]:
                            flags["uncounted_miss"] = True
                else:
                    hits[name] = None
            else:
                was_full = m.split(na)[0] in m.full_sets()
                hits[name] = m.write(na)
                if name == "alloc":
                    if not hits[name]:
                        flags["write_miss"] = True
                        if was_full and cfg["type"] == "wb":
                            flags["miss_full_set"] = True
                    elif cfg["type"] == "wt":
                        wt_hit_words.add(na & ~3)
        if rw == "w":
            written_blocks.add(ref.block_base(na))
        if ref.evictions > seen_evictions:
            flags["eviction"] = True
            for eb in ref.evicted_blocks[seen_evictions:]:
                if eb in written_blocks:
                    flags["evict_written"] = True
                    evicted_written.add(eb)
                    written_blocks.discard(eb)
            seen_evictions = ref.evictions
        if hits.get("alloc"):
            flags["hit"] = True
        h1, a1, last = cstats()
        if "accounting" in clauses:
            if not counted:
                if (h1, a1, last) != (h0, a0, last0) or pm.cycles != c0:
                    raise Violation("uncounted-read-counted", case, f"op {k} {op}: counters/last_hit {(h0, a0, last0)}->{(h1, a1, last)}, cycles {c0}->{pm.cycles}")
            else:
                if a1 != a0 + 1:
                    raise Violation("access-counter", case, f"op {k} {op}: accesses {a0}->{a1}")
                obs_hit = h1 - h0
                if obs_hit not in (0, 1):
                    raise Violation("hit-counter", case, f"op {k} {op}: hits {h0}->{h1}")
                for name in list(models):
                    if bool(hits[name]) != bool(obs_hit):
                        del models[name]
                if not models:
                    raise Violation("hit-miss", case, f"op {k} {op}: implementation counted a {'hit' if obs_hit else 'miss'}; "
                                    f"the reference cache ({cfg}) says otherwise under both admissible readings")
                if last != bool(obs_hit):
                    raise Violation("last-hit-flag", case, f"op {k} {op}: last_hit={last} after a {'hit' if obs_hit else 'miss'}")
                exp_c = c0 + (0 if obs_hit else cfg["pen"])
                if pm.cycles != exp_c:
                    raise Violation("miss-penalty", case, f"op {k} {op}: cycles {c0}->{pm.cycles}, expected {exp_c}")
        if "resident" in clauses:
            got = {sw: b for sw, (b, _) in resident_blocks(mem).items()}
            for name in list(models):
                if models[name].resident_map() != got:
                    if len(models) == 1:
                        raise Violation("resident-set", case, f"op {k} {op}: resident (set,way)->block {sorted(got.items())}, "
                                        f"reference {sorted(models[name].resident_map().items())}")
                    del models[name]
        if "invariant" in clauses:
            _invariants(case, cfg, mem, backing, L, pool_words, blk_bytes, f"after op {k} {op}")
        ref = models.get("alloc") or next(iter(models.values()))
    # end of history: everything reads back as the flat store says (through the cache, uncounted)
    if "transparency" in clauses:
        for a in sorted(pool_words):
            got = safe_word(mem, a, "final read-back")
            exp = L.read(a, 4)
            if got != exp:
                raise Violation("final-readback", case, f"word {a:#x}: cached memory {got:#x}, flat memory {exp:#x}")
    if "invariant" in clauses:
        _invariants(case, cfg, mem, backing, L, pool_words, blk_bytes, "at the end")
    tags.add(f"{cfg['type']}:{cfg['repl']}")
    for f, v in flags.items():
        if v:
            tags.add("flag:" + f)
    yield flags, tags


def finish(case, stats, flags, tags, nontrivial):
    cfg = case["cfg"]
    if nontrivial == "c03":
        nt = flags["read_after_evict_written"] or flags["wt_write_hit_then_read"]
    elif nontrivial == "c09":
        nt = flags["hit"] and flags["miss_full_set"] and flags["write_miss"]
    elif nontrivial == "c12":
        nt = flags["evict_written"] or (cfg["type"] == "wt" and flags["wt_write_hit_then_read"])
    else:
        nt = flags[nontrivial]
    stats.count(case, nt, tags, sample_tag=f"history:{cfg['type']}")


def _invariants(case, cfg, mem, backing, L, pool_words, blk_bytes, where):
    LO = cfg.get("lo", B)
    R = resident_blocks(mem)
    res_words = {}
    for (s, w), (base, words) in R.items():
        for i, v in enumerate(words):
            res_words[base + 4 * i] = v
    if cfg["type"] == "wt":
        for a in pool_words:
            b = int(backing.read_word(a))
            if b != L.read(a, 4):
                raise Violation("wt-backing-not-current", case, f"{where}: backing word {a:#x} = {b:#x}, logical {L.read(a, 4):#x}")
        for a, v in res_words.items():
            if LO <= a <= T - 4 and v != int(backing.read_word(a)):
                raise Violation("wt-resident-block-stale", case, f"{where}: resident word {a:#x} = {v:#x}, backing {int(backing.read_word(a)):#x}")
    else:
        for a in pool_words:
            b = int(backing.read_word(a))
            l = L.read(a, 4)
            if a in res_words:
                if res_words[a] != l:
                    raise Violation("wb-resident-value", case, f"{where}: resident word {a:#x} = {res_words[a]:#x}, logical {l:#x}")
            elif b != l:
                raise Violation("wb-lost-value", case, f"{where}: word {a:#x} not resident, backing {b:#x} != logical {l:#x}")
    # the memory table shown to the user is the backing store
    table = mem.wordwise_repr()
    for a, rep in table.items():
        if int(rep[1]) != int(backing.read_word(a)):
            raise Violation("memory-table", case, f"{where}: table shows {rep[1]} at {a:#x}, backing holds {int(backing.read_word(a))}")
        if cfg["type"] == "wt" and a in pool_words and int(rep[1]) != L.read(a, 4):
            raise Violation("wt-memory-table-not-current", case, f"{where}: table word {a:#x}")


# ------------------------------------------------------------------------------------------------------------
# generators
# ------------------------------------------------------------------------------------------------------------
@st.composite
def history_case(draw, accepted_only=False, max_ops=60, small=None):
    small = draw(st.booleans()) if small is None else small
    cfg = dict(draw(cachecfg.small_cache_config() if small else cachecfg.cache_config()))
    variant = draw(st.integers(0, 9))
    if variant == 0:
        cfg["lo"] = 0                     # cache classes directly on a full-range Memory: tag-0 addresses reachable
    elif variant == 1 and not small:
        cfg["idx"] = draw(st.integers(8, 11))   # big geometry: addresses right above 2^14 have tag 0 / small tags
        cfg["ways"] = min(cfg["ways"], 4)
    nsets = 1 << cfg["idx"]
    blk_bytes = 4 << cfg["blk"]
    stride = nsets * blk_bytes                      # same set, next tag
    sets = draw(st.lists(st.integers(0, nsets - 1), min_size=1, max_size=3 if cfg["ways"] < 4 else 1, unique=True))
    ntags = cfg["ways"] + 2
    region = draw(st.sampled_from([B, B, B + 16 * stride, T - (ntags + 1) * stride]))
    if cfg.get("lo") == 0:
        region = draw(st.sampled_from([0, 0, stride, B]))
    region -= region % stride
    lo = cfg.get("lo", B)
    if region < lo:
        # big geometry (one tag spans more than the 16 KiB below the first data address): use tag 0 and only sets
        # whose addresses are valid
        region = 0
        first = -(-lo // blk_bytes)
        sets = draw(st.lists(st.integers(first, nsets - 1), min_size=1, max_size=2, unique=True))

    def addr_s():
        base = st.builds(lambda t, s, o: region + t * stride + s * blk_bytes + o,
                         st.integers(0, ntags - 1), st.sampled_from(sets), st.integers(0, blk_bytes - 1))
        if accepted_only:
            return st.one_of(base, base, st.builds(lambda a, k: a + k * T, base, st.sampled_from([1, -1, 2])))
        odd = st.one_of(st.sampled_from([B - 1, B - 4, 0, 4, T - 1, T - 2, T - 3, B - 2]),
                        st.builds(lambda a, k: a + k * T, base, st.sampled_from([1, -1])))
        return st.one_of(base, base, base, odd)

    values = st.one_of(st.sampled_from([0, 1, 0xFF, 0x80, 0xFFFF, 0x8000, 0xFFFFFFFF, 0x01020304, 0xA1B2C3D4]),
                       st.integers(0, M32))

    def mkpre(t, s, o, v, w, sub):
        a = region + t * stride + s * blk_bytes + 4 * (o % (blk_bytes // 4))
        if w == 4:
            return [a, v]
        off = sub % 4 if w == 1 else (sub % 2) * 2
        return [a + off, v & ((1 << (8 * w)) - 1), w]

    inspect = draw(st.integers(0, 2)) == 0       # a third of the histories interleave pure queries with the accesses
    pre = draw(st.lists(st.builds(mkpre, st.integers(0, ntags - 1), st.sampled_from(sets), st.integers(0, 7), values,
                                  st.sampled_from([4, 4, 1, 2]), st.integers(0, 3)), max_size=6))
    @st.composite
    def op(draw):
        rw = draw(st.sampled_from(["r", "r", "w", "w", "ru", "wz"] if pre else ["r", "r", "w", "w", "ru"]))
        if inspect and draw(st.integers(0, 3)) == 0:
            a = draw(addr_s())
            return ["i", 4, a - a % 4]
        if rw == "wz":
            # overwrite a preloaded location with zero, same width (a word may become all-zero again)
            pe = draw(st.sampled_from(pre))
            return ["w", pe[2] if len(pe) > 2 else 4, pe[0], 0]
        w = draw(st.sampled_from([1, 2, 4, 4]))
        a = draw(addr_s())
        if accepted_only:
            a -= (a % 4 + w - 4) if (a % 4) + w > 4 else 0
            if not (lo <= (a & M32) and (a & M32) + w <= T):
                a = region
        if rw == "w":
            return ["w", w, a, draw(values) & ((1 << (8 * w)) - 1)]
        return ["r", w, a, rw == "r"]

    ops = draw(st.lists(op(), min_size=min(max_ops, 1 if cfg["ways"] < 4 else 2 * cfg["ways"] + 2), max_size=max_ops))
    if len(ops) >= 4 and draw(st.integers(0, 3)) == 0:
        # the memory system is reset in mid-history (a simulation object reused for a second program); the operations
        # after it revisit the same small address universe, so leftovers of the first half would show
        p = draw(st.integers(2, len(ops) - 1))
        if draw(st.booleans()):
            # ... and before the reset the cache was only ever looked at (uncounted reads fill blocks but count nothing)
            ops[:p] = [["r", o[1], o[2], False] for o in ops[:p]]
        ops.insert(p, ["z"])
    return {"cfg": cfg, "pre": pre, "ops": ops}


TINY_GEOMETRIES = [
    {"idx": 0, "blk": 0, "ways": 1, "type": "wb", "repl": "lru", "pen": 2},
    {"idx": 0, "blk": 0, "ways": 2, "type": "wb", "repl": "lru", "pen": 0},
    {"idx": 0, "blk": 1, "ways": 2, "type": "wb", "repl": "plru", "pen": 1},
    {"idx": 1, "blk": 0, "ways": 1, "type": "wb", "repl": "lru", "pen": 3},
    {"idx": 0, "blk": 0, "ways": 1, "type": "wt", "repl": "lru", "pen": 2},
    {"idx": 0, "blk": 1, "ways": 2, "type": "wt", "repl": "lru", "pen": 0},
    {"idx": 1, "blk": 1, "ways": 1, "type": "wt", "repl": "plru", "pen": 1},
    {"idx": 1, "blk": 0, "ways": 2, "type": "wt", "repl": "plru", "pen": 5},
]


def tiny_alphabet(cfg, with_rejected=True):
    """Operations on three conflicting blocks A, C, D (same set) - enough to force evictions with <= 2 ways."""
    stride = (1 << cfg["idx"]) * (4 << cfg["blk"])
    A, C, D = B, B + stride, B + 2 * stride
    second = 4 if cfg["blk"] else 0       # second word of the block where there is one
    ops = [
        ["r", 4, A, True], ["w", 4, A, 0x11111111], ["r", 1, A + 1, True], ["w", 1, A + 1, 0xAB],
        ["r", 4, C + second, True], ["w", 4, C + second, 0x22222222], ["r", 4, D, True], ["w", 2, D + 2, 0x3344],
        ["r", 4, A, False], ["w", 2, A + second, 0xBEEF], ["i", 4, A],
    ]
    if with_rejected:
        ops += [["w", 2, A + 3, 0x5566], ["r", 2, A + 3, True], ["w", 4, C + 2, 0x77777777]]
    return ops


def tiny_cases(length, part, parts, with_rejected=True, geometries=None):
    idx = 0
    for cfg in (geometries or TINY_GEOMETRIES):
        alpha = tiny_alphabet(cfg, with_rejected)
        stride = (1 << cfg["idx"]) * (4 << cfg["blk"])
        pre = [[B, 0xDEAD0001], [B + stride, 0xDEAD0002], [B + 4, 0x0BADF00D]]
        for seq in itertools.product(range(len(alpha)), repeat=length):
            if idx % parts == part:
                yield {"cfg": cfg, "pre": pre, "ops": [alpha[i] for i in seq]}
            idx += 1


def partial_fill_cases():
    """Deterministic: sets that are only PARTLY filled, with the tag-0 block (addresses from 0 upwards, reachable on a
    full-range memory) arriving as the 1st, 2nd, ... fill, for both policies (tree-PLRU fills the ways out of index order),
    2/4/8 ways, both write policies; every resident block is then re-read, the tag-0 block written and read back."""
    for ways, repl, typ, (idx, blk) in itertools.product((2, 4, 8), ("lru", "plru"), ("wb", "wt"), ((0, 0), (1, 1))):
        cfg = {"idx": idx, "blk": blk, "ways": ways, "type": typ, "repl": repl, "pen": 1, "lo": 0}
        stride = (1 << idx) * (4 << blk)
        others = list(range(1, ways))
        for pos in range(min(ways - 1, 4) + 1):
            order = others[:pos] + [0] + others[pos:]
            for fill in range(pos + 1, len(order) + 1):
                sel = order[:fill]
                ops = [["r", 4, t * stride, True] for t in sel] * 2 + [["w", 4, 0, 0xABCD0123], ["r", 4, 0, True]] \
                    + [["r", 1, t * stride + 1, False] for t in sel] + [["w", 2, 2, 0x7788], ["r", 4, 0, True]]
                yield {"cfg": cfg, "pre": [[0, 0x11], [stride, 0x22]], "ops": ops}
                if fill == len(order):
                    # the same history with the pure queries after every access (residency asked for the block touched
                    # two accesses ago, i.e. one that is resident but not the most recently used)
                    ins = []
                    for i, o in enumerate(ops):
                        ins += [o, ["i", 4, ops[i - 2][2] & ~3 if i >= 2 else 0]]
                    yield {"cfg": cfg, "pre": [[0, 0x11], [stride, 0x22]], "ops": ins}


def corpus():
    wb = {"idx": 0, "blk": 0, "ways": 1, "type": "wb", "repl": "lru", "pen": 2}
    wt = {"idx": 0, "blk": 1, "ways": 2, "type": "wt", "repl": "lru", "pen": 1}
    return [
        {"cfg": wb, "pre": [[B, 5]], "ops": [["w", 4, B, 1], ["r", 4, B + 4, True], ["r", 4, B, True], ["w", 1, B + 5, 0xAA],
                                               ["r", 4, B, True], ["r", 2, B + 4, True], ["r", 1, B + 5, False]]},
        {"cfg": wt, "pre": [], "ops": [["r", 4, B, True], ["w", 2, B + 2, 0xBEEF], ["r", 4, B, True], ["w", 4, B + 64, 7],
                                        ["r", 1, B + 64, True], ["r", 4, B + 4, True]]},
    ]
