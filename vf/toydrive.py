"""Construction and observation helpers for TOY simulations (no expected values are computed here)."""
from __future__ import annotations

from vf.ref import toy as rtoy


def first_line(first):
    mn, addr = first
    return mn if addr is None else f"{mn} 0x{addr:03X}"


def first_word(first):
    mn, addr = first
    return (rtoy.MNEMONICS.index(mn) << 12) | (addr or 0)


def build(case):
    """case: {"first": [mnemonic, addr|None], "len": n, "words": {addr: word (addr >= 1)}, "accu": int, "via_text": bool}
    -> (ToySimulation, ToyMachine).  The instruction at address 0 is what the assembler placed (it is latched at load
    time); everything else is an arbitrary memory image.  Program length n is established either by assembling n lines
    (via_text) or by assembling one line and setting max_pc (shortcut, see DESIGN.md)."""
    from fixedint import UInt16
    from architecture_simulator.simulation.toy_simulation import ToySimulation
    sim = ToySimulation()
    if case.get("reuse"):
        # a USED simulation object: it assembled and executed another program before this one is loaded
        sim.load_program("INC\nDEC\nNOT\nINC\nZRO\nDEC\nINC\nNOT\n")
        for _ in range(int(case["reuse"])):
            sim.step()
    n = case["len"]
    if case.get("via_text"):
        text = first_line(case["first"]) + "\n" + "NOP\n" * (n - 1)
    else:
        text = first_line(case["first"]) + "\n"
    sim.load_program(text)
    if not case.get("via_text"):
        sim.state.max_pc = n - 1
    ref = rtoy.ToyMachine({}, n - 1, case.get("accu", 0))
    ref.mem[0] = first_word(case["first"])
    if case.get("via_text"):
        for a in range(1, n):
            ref.mem[a] = 0xC000
    for a, w in sorted((int(a), w) for a, w in case.get("words", {}).items()):
        sim.state.memory.write_halfword(a, UInt16(w))
        ref.mem[a] = w & 0xFFFF
    sim.state.accu = UInt16(case.get("accu", 0))
    return sim, ref


def snapshot(sim):
    """Observable TOY state (no wall-clock fields)."""
    st = sim.state
    pm = st.performance_metrics
    return {
        "accu": int(st.accu), "pc": int(st.program_counter),
        "ir": None if st.loaded_instruction is None else int(st.loaded_instruction),
        "mem": {int(a): int(v) for a, v in st.memory.memory_file.items() if int(v)},
        "max_pc": st.max_pc, "cur": st.address_of_current_instruction, "next": st.address_of_next_instruction,
        "instr": pm.instruction_count, "cycles": pm.cycles, "branches": pm.branch_count,
        "next_cycle": sim.next_cycle, "done": bool(sim.is_done()),
    }
