"""C14 — the text printed for an instruction re-assembles, at the same address, to an identical instruction; the
printed listing of a program re-assembles to the same listing.

case kinds
  {"kind": "batch", "pad": P, "ins": [[mnemonic, fields...], ...]}   instruction i lives at address 4*(P+i)
  {"kind": "listing", "prog": [[mnemonic, fields...], ...]}
"""
from __future__ import annotations

from hypothesis import strategies as st

from vf import core, rvdrive
from vf.core import Violation
from vf.gen import rvprog
from vf.ref import rv32

ID = "C14"
LEVEL = "exploration"
TECHNIQUE = "round-trip property testing (print -> assemble -> compare fields) over generated instruction objects, plus listing idempotence on generated programs, listing invariance under execution (both modes) and under single writes"
RULE = ("every class of the instruction map except FENCE (53 mnemonics, round-robin), rd/rs1/rs2 in 0..31, immediates over the "
        "whole field incl. boundaries (I/S 12-bit signed, shift 0..31, B 13-bit even, U 20-bit signed, J 21-bit even, csr "
        "0..4095, uimm 0..31), placed at address 4*(pad+i) behind `pad` nop lines (pad up to 4000): load_program(pad + repr) "
        "must store an object of the same class with the same rd/rs1/rs2/imm/csr/uimm (J: imm and abs_addr) at that address; "
        "listing(load(listing(P))) == listing(P) for generated programs; the listing stays the same while the program is executed (both modes, 30 steps) and follows single write_instruction() calls made after it was shown. non-trivial = negative or boundary immediate, or a "
        "pc-relative form (JAL) at an address != 0; distinct = hash(instruction, address)")
ASSUMPTIONS = ["B-type numeric operands are pc-relative, JAL numeric operands absolute, as the help table documents"]

CSR_OPS = ["csrrw", "csrrs", "csrrc"]
CSRI_OPS = ["csrrwi", "csrrsi", "csrrci"]
ALL53 = rv32.ALL_OPS + CSR_OPS + CSRI_OPS + ["ebreak"]
FIELDS = ("rd", "rs1", "rs2", "imm", "csr", "uimm", "abs_addr")


def mk(ins, pc):
    from architecture_simulator.isa.riscv import rv32i_instructions as R
    op = ins[0]
    if op in CSR_OPS or op in CSRI_OPS:
        return getattr(R, op.upper())(ins[1], ins[2], ins[3])
    if op == "ebreak":
        return R.EBREAK()
    return rvdrive.mk_ins(ins, pc)


def _fields(obj):
    return {f: getattr(obj, f) for f in FIELDS if hasattr(obj, f)}


def check(case, stats):
    if case["kind"] == "listing":
        return check_listing(case, stats)
    from architecture_simulator.simulation.riscv_simulation import RiscvSimulation
    pad = case["pad"]
    objs = [mk(ins, 4 * (pad + i)) for i, ins in enumerate(case["ins"])]
    text = "nop\n" * pad + "\n".join(repr(o) for o in objs) + "\n"
    sim = RiscvSimulation()
    try:
        sim.load_program(text)
    except Exception as ex:
        # find the culprit line for a readable report
        ln = getattr(ex, "line_number", None)
        culprit = case["ins"][ln - 1 - pad] if isinstance(ln, int) and 0 <= ln - 1 - pad < len(objs) else None
        small = {"kind": "batch", "pad": pad + (ln - 1 - pad) if culprit else pad, "ins": [culprit] if culprit else case["ins"]}
        raise Violation("printed-text-rejected", small, f"{type(ex).__name__}: {ex!r}; printed text {repr(objs[ln - 1 - pad]) if culprit else '?'!r}")
    for i, (ins, o) in enumerate(zip(case["ins"], objs)):
        addr = 4 * (pad + i)
        try:
            back = sim.state.instruction_memory.read_instruction(addr)
        except Exception as ex:
            raise Violation("no-instruction-at-address", {"kind": "batch", "pad": pad + i, "ins": [ins]}, f"{addr:#x}: {ex!r}")
        if type(back) is not type(o) or _fields(back) != _fields(o):
            raise Violation("round-trip:" + ins[0], {"kind": "batch", "pad": pad + i, "ins": [ins]},
                            f"{repr(o)!r} at {addr:#x} re-assembles to {type(back).__name__} {_fields(back)}, original {type(o).__name__} {_fields(o)}")
        nt = any(isinstance(v, int) and (v < 0 or v in (2047, 4094, 31, 4095, 0x7FFFF, (1 << 20) - 2)) for v in ins[1:]) or (ins[0] == "jal" and addr != 0)
        stats.count([ins, addr], nt, {"op:" + ins[0]}, sample_tag="ins:" + ins[0])


def _prog_fields(sim):
    from vf.ref import asm
    im = sim.state.instruction_memory
    return [asm.abstract_of(im.read_instruction(a)) for a, _ in im.get_representation()]


def check_listing(case, stats):
    from architecture_simulator.simulation.riscv_simulation import RiscvSimulation
    sim = RiscvSimulation()
    if case.get("ast") is not None:
        # a program loaded from SOURCE (labels, label+0xNN operands, pseudo-instructions, data segment): its printed
        # listing re-assembles to the same listing and to instructions with identical fields
        from vf.ref import asm
        src, _ = asm.render(case["ast"], case["tape"])
        try:
            sim.load_program(src)
        except Exception as ex:
            raise Violation("well-formed-program-rejected", case, f"{type(ex).__name__}: {ex!r}\n{src}")
    else:
        sim.state.instruction_memory.write_instructions([mk(ins, 4 * i) for i, ins in enumerate(case["prog"])])
    l1 = sim.get_instruction_memory_entries()
    text = "\n".join(e[1] for e in l1)
    sim2 = RiscvSimulation()
    try:
        sim2.load_program(text)
    except Exception as ex:
        raise Violation("listing-rejected", case, f"{type(ex).__name__}: {ex!r}\n{text}")
    l2 = sim2.get_instruction_memory_entries()
    if [(e[0], e[1]) for e in l1] != [(e[0], e[1]) for e in l2]:
        d = [(a, b) for a, b in zip(l1, l2) if a[:2] != b[:2]][:3]
        raise Violation("listing-differs", case, f"first differences {d}")
    f1, f2 = _prog_fields(sim), _prog_fields(sim2)
    if f1 != f2:
        d = [(i, a, b) for i, (a, b) in enumerate(zip(f1, f2)) if a != b][:3]
        raise Violation("listing-reassembles-to-other-fields", case, f"(index, loaded program, re-assembled listing) {d}\n{text}")
    _listing_under_execution(case, [(e[0], e[1]) for e in l1], src if case.get("ast") is not None else None)
    if case.get("ast") is not None:
        stats.count(case, len(f1) >= 3, {"listing-from-source"}, sample_tag="listing-from-source")
        return
    # the listing describes what is STORED: after it has been shown once, other instructions are put into the memory one at
    # a time (write_instruction, as the repository's tests do); every row must follow
    im = sim.state.instruction_memory
    prog2 = case["prog"][1:] + case["prog"][:1]
    for i, ins in enumerate(prog2):
        o = mk(ins, 4 * i)
        im.write_instruction(4 * i, o)
        shown = dict((e[0][0], e[1]) for e in sim.get_instruction_memory_entries())
        if shown.get(4 * i) != repr(o):
            raise Violation("listing-stale-after-write", case, f"address {4 * i:#x} holds {repr(o)!r}, the listing shows {shown.get(4 * i)!r}")
    stats.count(case, len(case["prog"]) >= 3, {"listing"}, sample_tag="listing")


def _listing_under_execution(case, l0, src):
    """The printed text of an instruction does not depend on whether, or in which pipeline mode, it has been executed: while
    the program runs (both modes, bounded), the listing stays what it was after loading - and so keeps re-assembling to it."""
    from architecture_simulator.simulation.runtime_errors import InstructionExecutionException
    for mode in ("single", "five"):
        sim = rvdrive.new_sim(mode, True, None, None)
        if src is not None:
            sim.load_program(src)
        else:
            sim.state.instruction_memory.write_instructions([mk(ins, 4 * i) for i, ins in enumerate(case["prog"])])
        for n in range(1, 31):
            if sim.is_done():
                break
            try:
                sim.step()
            except InstructionExecutionException:
                break
            except Exception:
                break    # CSR / ebreak objects are not executable: execution is not this property's subject
            now = [(e[0], e[1]) for e in sim.get_instruction_memory_entries()]
            if now != l0:
                d = [(a, b) for a, b in zip(l0, now) if a != b][:3]
                raise Violation("listing-changes-during-execution", case, f"{mode} mode, after step {n}: (loaded, now) {d}")


# ------------------------------------------------------------------------------------------------------------
r32 = st.integers(0, 31)
i12 = st.one_of(st.sampled_from([0, 1, -1, 2047, -2048, 2046, -2047, 1024, -1024]), st.integers(-2048, 2047))
b13 = st.one_of(st.sampled_from([0, 2, -2, 4094, -4096, 4, -4, 2048, -2048]), st.integers(-2048, 2047).map(lambda k: 2 * k))
u20 = st.one_of(st.sampled_from([0, 1, -1, 0x7FFFF, -0x80000]), st.integers(-(1 << 19), (1 << 19) - 1))
j21 = st.one_of(st.sampled_from([0, 2, -2, (1 << 20) - 2, -(1 << 20), 4, -4]), st.integers(-(1 << 19), (1 << 19) - 1).map(lambda k: 2 * k))
csr12 = st.one_of(st.sampled_from([0, 1, 0xFFF, 0x300, 0xC00, 10]), st.integers(0, 4095))


def one_ins(op):
    if op in rv32.R_OPS:
        return st.tuples(st.just(op), r32, r32, r32).map(list)
    if op in rv32.I_OPS or op in rv32.LOAD_OPS or op == "jalr":
        return st.tuples(st.just(op), r32, r32, i12).map(list)
    if op in rv32.SH_OPS:
        return st.tuples(st.just(op), r32, r32, st.integers(0, 31)).map(list)
    if op in rv32.STORE_OPS:
        return st.tuples(st.just(op), r32, r32, i12).map(list)
    if op in rv32.BRANCH_OPS:
        return st.tuples(st.just(op), r32, r32, b13).map(list)
    if op in rv32.U_OPS:
        return st.tuples(st.just(op), r32, u20).map(list)
    if op == "jal":
        return st.tuples(st.just(op), r32, j21).map(list)
    if op in CSR_OPS:
        return st.tuples(st.just(op), r32, csr12, r32).map(list)
    if op in CSRI_OPS:
        return st.tuples(st.just(op), r32, csr12, st.integers(0, 31)).map(list)
    return st.just([op])


def batch_case(ops, size, max_pad, min_pad=0):
    pads = st.one_of(st.just(0), st.integers(0, 16), st.integers(0, max_pad)) if not min_pad else st.integers(min_pad, max_pad)
    return st.builds(lambda pad, ins: {"kind": "batch", "pad": min(pad, 4096 - len(ins)), "ins": ins}, pads,
                     st.tuples(*[one_ins(ops[i % len(ops)]) for i in range(size)]).map(list))


def listing_case():
    any_ins = st.sampled_from(ALL53).flatmap(one_ins)
    return st.builds(lambda p: {"kind": "listing", "prog": p}, st.lists(any_ins, min_size=1, max_size=25))


GR = [0, 1, 9, 10, 19, 20, 31]           # register numbers incl. two-digit ones that share a prefix with x1 / x2
GI12 = [0, 1, -1, 2047, -2048, 5, -5, 1024, 0x7FE]
GB13 = [0, 2, -2, 4094, -4096, 4, -4, 2048, -2048]


def grid_instructions(op):
    """Deterministic operand grid for one mnemonic (registers x immediates boundaries; full CSR number sweep)."""
    import itertools as it
    if op in rv32.R_OPS:
        return [[op, a, b, c] for a, b, c in it.product(GR, GR, GR)]
    if op in rv32.I_OPS or op in rv32.LOAD_OPS or op == "jalr" or op in rv32.STORE_OPS:
        return [[op, a, b, i] for a, b, i in it.product(GR, GR, GI12)]
    if op in rv32.SH_OPS:
        return [[op, a, b, i] for a, b, i in it.product(GR, GR, [0, 1, 15, 16, 31])]
    if op in rv32.BRANCH_OPS:
        return [[op, a, b, i] for a, b, i in it.product(GR, GR, GB13)]
    if op in rv32.U_OPS:
        return [[op, a, i] for a, i in it.product(GR, [0, 1, -1, 0x7FFFF, -0x80000, 0x12345])]
    if op == "jal":
        return [[op, a, i] for a, i in it.product(GR, [0, 2, -2, 4, -4, (1 << 20) - 2, -(1 << 20), 64, -64])]
    if op in CSR_OPS:
        return [[op, a, c, b] for a, b, c in it.product([0, 10, 31], [1, 19], [0, 1, 0x7FF, 0x800, 0xFFF, 0xC00])] + \
               ([[op, 1, c, 2] for c in range(4096)] if op == "csrrw" else [])
    if op in CSRI_OPS:
        return [[op, a, c, u] for a, c, u in it.product([0, 10, 31], [0, 0x10B, 0xFFF, 0x800], [0, 1, 15, 16, 31])] + \
               ([[op, 1, c, 7] for c in range(4096)] if op == "csrrwi" else [])
    return [[op]]


def grid_cases(ops, pads=(0, 1, 3)):
    for op in ops:
        ins = grid_instructions(op)
        for k in range(0, len(ins), 48):
            yield {"kind": "batch", "pad": pads[(k // 48) % len(pads)], "ins": ins[k:k + 48]}


def corpus():
    return [
        {"kind": "batch", "pad": 3, "ins": [["jal", 1, -12], ["beq", 1, 2, -4096], ["lui", 5, -1], ["sw", 2, 3, -2048], ["csrrwi", 1, 0xFFF, 31],
                                            ["jalr", 0, 1, -1], ["ecall"], ["ebreak"], ["slli", 1, 2, 31], ["lb", 31, 31, 2047], ["jal", 0, (1 << 20) - 2]]},
        {"kind": "batch", "pad": 4084, "ins": [["jal", 1, -16336], ["jal", 2, 8], ["auipc", 3, 0x7FFFF]]},
        {"kind": "listing", "prog": [["addi", 1, 0, 5], ["jal", 1, 8], ["beq", 1, 2, -4], ["sw", 2, 1, 4], ["ecall"]]},
    ]


def shards(tier, seed):
    items = []
    if tier == "quick":
        for i in range(4):
            items.append({"what": "batch", "ops": ALL53[i::4], "size": 40, "n": 25, "max_pad": 200, "seed": seed * 1000 + i})
        items.append({"what": "listing", "n": 300, "seed": seed * 1000 + 50})
        for i in range(4):
            items.append({"what": "grid", "ops": ALL53[i::4]})
        items.append({"what": "batch", "ops": ["jal", "beq", "auipc", "jalr", "jal", "bne"], "size": 24, "n": 3, "min_pad": 2048, "max_pad": 4060,
                      "seed": seed * 1000 + 60})
    else:
        for i in range(16):
            items.append({"what": "batch", "ops": ALL53[i::16] * 10, "size": 40, "n": 450, "max_pad": 200 if i % 4 else 4000, "seed": seed * 1000 + i})
        for i in range(4):
            items.append({"what": "listing", "n": 2500, "seed": seed * 1000 + 50 + i})
        for i in range(16):
            items.append({"what": "grid", "ops": ALL53[i::16]})
    return items


def run_shard(item, stats):
    km = core.known_matcher(ID, globals().get("known_match"))
    if item["what"] == "grid":
        core.run_cases(grid_cases(item["ops"]), check, stats, km)
        stats.exhaustive_parts.append("per-mnemonic register x immediate boundary grid; all 4096 CSR numbers for csrrw / csrrwi")
        return
    if item["what"] == "batch":
        core.hyp_search(batch_case(item["ops"], item["size"], item["max_pad"], item.get("min_pad", 0)), check, stats, item["n"], item["seed"], km,
                        shrink=not item.get("min_pad"))
    else:
        core.hyp_search(listing_case(), check, stats, item["n"], item["seed"], km)
        # deterministic: every label operand form of jal / branches (label, label+0xNN forwards and backwards)
        det = []
        for off in (None, 4, 8, 0x10):
            for back in (False, True):
                nop = {"ins": ["addi", 0, 0, 0], "inline": None, "form": 0}
                body = [dict(nop) for _ in range(6)]
                jal = {"ins": ["jal", 1, {"label": "tgt", "off": off}], "inline": None, "form": 0}
                br = {"ins": ["bne", 1, 2, {"label": "tgt", "off": None}], "inline": None, "form": 0}
                textitems = ([{"label": "tgt"}] + body + [jal, br]) if back else ([jal, br, {"label": "tgt"}] + body)
                det.append({"kind": "listing", "tape": [off or 0, int(back), 1],
                            "ast": {"data": [], "data_first": False, "text_directive": False, "text": textitems}})
        core.run_cases(det, check, stats, km)
        from vf.props import c04
        core.hyp_search(c04.case_strategy(14).map(lambda c: {"kind": "listing", "ast": c["ast"], "tape": c["tape"]}), check, stats,
                        max(50, item["n"] // 3), item["seed"] + 7, km)
