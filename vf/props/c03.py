"""C03 — the data cache is transparent: cached memory returns what flat memory would; programs behave the same with
the cache on and off (both modes); word-crossing accesses are rejected and leave every stored value unchanged.

case kinds
  {"kind": "history", cfg, pre, ops}                          see vf.cachehist
  {"kind": "program", prog, regs, mem, max, dcache, mode}      aligned-access program, cache on vs. off
"""
from __future__ import annotations

from hypothesis import strategies as st

from vf import cachehist, core, pipedrive, rvdrive
from vf.core import Violation
from vf.gen import cachecfg, rvprog

ID = "C03"
LEVEL = "exploration"
TECHNIQUE = "model-based property testing of access histories against a flat reference store (differential), small-scope exhaustive enumeration of operation sequences on tiny geometries, differential program runs (cache on vs off)"
RULE = ("(a) Hypothesis histories (preloads, counted/uncounted reads, writes; byte/half/word; word-crossing and out-of-range "
        "accesses) over a conflict-dense address pool for the drawn geometry/policies; (b) ALL operation sequences up to the "
        "stated length over a 13-operation alphabet on 8 tiny geometries; (c) aligned-access programs with the data cache on "
        "vs off in both modes. Oracle: every read equals the flat reference store; crossing/out-of-range accesses raise and "
        "leave all pool words unchanged (checked on a deep copy); final read-back of the pool. non-trivial = (history) a "
        "written block was replaced and one of its addresses was read later, or (WT) a write hit followed by a read of that "
        "word; (program) >=1 data-cache eviction; distinct = hash(case)"
        ' Histories contain reset() of the memory system in mid-history (store, tag models and bookkeeping restart; the'
        ' same addresses are revisited), sub-word preloads, zeroing writes, aliased (+-k*2^32) addresses, caches direct'
        'ly over a full-range memory.')
ASSUMPTIONS = [
    "preloads (direct writes below the cache) only before the first cached access, as the assembler does",
    "which error type rejects a crossing access is not prescribed; any ValueError/MemoryAddressError counts as rejection",
]


def check(case, stats):
    if case.get("kind", "history") == "history":
        return cachehist.check(case, stats, clauses=("transparency",), nontrivial="c03")
    return check_program(case, stats)


def _logical_memory(t):
    """Logical data memory of a finished run: read every touched word through the memory system (uncounted)."""
    sim = t.sim
    words = {a & ~3 for a in rvdrive.backing_bytes(sim)}
    for zet in (sim.state.memory.cache_repr().sets if sim.state.memory.cache_repr() else []):
        for blk in zet.blocks:
            if blk.valid_bit == "1":
                for a, _ in blk.address_value_list:
                    words.add(int(a, 16))
    out = {}
    for a in sorted(words):
        try:
            v = int(sim.state.memory.read_word(a, update_statistics=False))
        except Exception as ex:
            raise Violation("program-memory-read-raises", t.case, f"uncounted read_word({a:#x}) raised {type(ex).__name__}: {ex}")
        if v:
            out[a] = v
    return out


def check_program(case, stats):
    mode = case["mode"]
    mx = case.get("max", 250)
    off = pipedrive.run(case, mode, True, None, None, max_steps=mx if mode == "single" else 8 * mx + 32)
    on = pipedrive.run(case, mode, True, case["dcache"], None, max_steps=mx if mode == "single" else 8 * mx + 32)
    off.case = on.case = case
    if off.end != on.end:
        raise Violation("program-end", case, f"cache off: {off.end}, cache on: {on.end} ({on.fault_repr})")
    if off.pcs != on.pcs:
        raise Violation("program-path", case, "executed/retired instruction sequence differs with the cache on")
    if off.end == "fault":
        if off.fault_addr != on.fault_addr or off.fault_regs != on.fault_regs:
            raise Violation("program-fault", case, f"{off.fault_addr} vs {on.fault_addr}")
    if off.final_regs != on.final_regs:
        raise Violation("program-registers", case, "final registers differ with the cache on")
    if off.final_out != on.final_out or off.exit_code != on.exit_code:
        raise Violation("program-output", case, f"{off.final_out!r}/{off.exit_code} vs {on.final_out!r}/{on.exit_code}")
    lm_off = {a: v for a, v in _logical_memory(off).items()}
    lm_on = _logical_memory(on)
    if off.end != "fault" and lm_off != lm_on:
        d = [(hex(a), lm_off.get(a, 0), lm_on.get(a, 0)) for a in sorted(set(lm_off) | set(lm_on)) if lm_off.get(a, 0) != lm_on.get(a, 0)]
        raise Violation("program-memory", case, f"(addr, off, on) {d[:6]}")
    acc = int(on.dstats["accesses"])
    hits = int(on.dstats["hits"])
    # evictions are not directly observable; misses beyond the cache capacity in blocks imply at least one
    cap = (1 << case["dcache"]["idx"]) * case["dcache"]["ways"]
    evicted = (acc - hits) > cap
    stats.count(case, evicted, {"kind:program", "mode:" + mode, "dc:" + case["dcache"]["type"], "end:" + off.end},
                sample_tag="program:" + mode)


def program_case():
    return st.builds(lambda c, d, m: dict(c, kind="program", dcache=d, mode=m, max=250),
                     rvprog.mem_heavy_case(18), st.one_of(cachecfg.small_cache_config(), cachecfg.small_cache_config(), cachecfg.cache_config()),
                     st.sampled_from(["single", "five"]))


def corpus():
    B = cachehist.B
    wt = {"idx": 0, "blk": 1, "ways": 2, "type": "wt", "repl": "lru", "pen": 1}
    return [dict(c, kind="history") for c in cachehist.corpus()] + [
        # F5 repro: W1 resident, half-word write at W0+3 on a write-through write miss
        {"kind": "history", "cfg": {"idx": 1, "blk": 0, "ways": 1, "type": "wt", "repl": "lru", "pen": 0}, "pre": [],
         "ops": [["r", 4, B + 4, True], ["w", 2, B + 3, 0xBBAA], ["r", 1, B + 4, True]]},
        {"kind": "program", "mode": "five", "max": 100, "dcache": {"idx": 0, "blk": 0, "ways": 1, "type": "wb", "repl": "lru", "pen": 0},
         "prog": [["sw", 8, 1, 0], ["sw", 8, 1, 4], ["lw", 2, 8, 0], ["sb", 8, 2, 9], ["lw", 3, 8, 8], ["lw", 5, 8, 4]],
         "regs": {"8": B, "1": 0xA1B2C3D4}, "mem": {str(B + 8): 0x01020304}},
    ]


def shards(tier, seed):
    items = []
    if tier == "quick":
        for i in range(4):
            items.append({"what": "history", "n": 120, "ops": 50, "seed": seed * 1000 + i})
        for L in (1, 2, 3):
            items.append({"what": "tiny", "len": L, "part": 0, "parts": 1})
        for p in range(8):
            items.append({"what": "tiny", "len": 4, "part": p, "parts": 8, "geos": [0, 2, 5, 7]})
        for i in range(3):
            items.append({"what": "program", "n": 200, "seed": seed * 1000 + 50 + i})
    else:
        for i in range(16):
            items.append({"what": "history", "n": 1500, "ops": 100, "seed": seed * 1000 + i})
        for L in (1, 2, 3, 4):
            items.append({"what": "tiny", "len": L, "part": 0, "parts": 1})
        for p in range(48):
            items.append({"what": "tiny", "len": 5, "part": p, "parts": 48})
        for i in range(16):
            items.append({"what": "program", "n": 700, "seed": seed * 1000 + 50 + i})
    for i in range(2 if tier == "quick" else 8):
        items.append({"what": "machine", "n": 60 if tier == "quick" else 800, "seed": seed * 1000 + 900 + i})
    return _with_partial(items)


def _with_partial(items):
    return items + [{"what": "partial"}]


def run_shard(item, stats):
    if item.get("what") == "machine":
        from vf import machines
        return machines.machine_search(machines.cache_machine(stats, ('transparency',), 'c03', False), stats, item["n"], item["seed"])
    km = core.known_matcher(ID, globals().get("known_match"))
    w = item["what"]
    if w == "history":
        core.hyp_search(cachehist.history_case(max_ops=item["ops"]).map(lambda c: dict(c, kind="history")),
                        check, stats, item["n"], item["seed"], km)
    elif w == "partial":
        core.run_cases((dict(c, kind="history") for c in cachehist.partial_fill_cases()), check, stats, km)
    elif w == "tiny":
        geos = [cachehist.TINY_GEOMETRIES[g] for g in item.get("geos", range(8))]
        core.run_cases((dict(c, kind="history") for c in cachehist.tiny_cases(item["len"], item["part"], item["parts"], True, geos)),
                       check, stats, km, distinct=True)
        stats.exhaustive_parts.append(f"all 13^{item['len']} operation sequences of length {item['len']} on {len(geos)} tiny geometries")
    else:
        core.hyp_search(program_case(), check, stats, item["n"], item["seed"], km)
