"""C10 — replacement policies: exhaustive exploration of the LRU / PLRU state machines against reference
formulations (stamps / explicit interval tree), plus the wiring of the policy into real cache sets (every read hit,
write hit and fill informs the policy; a fill displaces the policy's victim) through generated access histories.

case kinds
  {"kind": "policy", "repl": "lru"|"plru", "ways": n, "path": [w, w, ...]}     access path from the initial state
  {"kind": "wiring", ...}  a cache history (see vf.cachehist) judged on the resident (set, way, tag) map
"""
from __future__ import annotations

import copy

from vf import cachehist, core
from vf.core import Violation
from vf.ref.cache import RefLRU, RefPLRU

ID = "C10"
LEVEL = "exploration"
EXHAUSTIVE = True
TECHNIQUE = "exhaustive breadth-first exploration of every reachable policy state x every access, compared with an independent reference formulation; property-based cache histories for the policy wiring"
RULE = ("breadth-first exploration from the initial policy state: from every reached state (keyed by get_repr()) every "
        "access(i) is applied to a copy; victim and representation must equal the reference (LRU: last-access stamps with "
        "never-accessed ways first in index order; PLRU: explicit interval tree), a repeated access must change nothing. "
        "Plus Hypothesis cache histories on real caches: resident (set, way, block) map after every operation must equal the "
        "reference cache. non-trivial = transitions (state, access) where the victim changes, or histories with >=1 "
        "eviction; distinct = distinct (state, access) pairs / hash(history)")
ASSUMPTIONS = ["get_repr() identifies the policy state (hidden state outside the representation would not be explored)"]


def _impl(repl, ways):
    from architecture_simulator.uarch.memory.replacement_strategies import LRU, PLRU
    return (LRU if repl == "lru" else PLRU)(ways)


def _ref(repl, ways):
    return (RefLRU if repl == "lru" else RefPLRU)(ways)


def _cmp(case, impl, ref, where):
    v = impl.get_next_to_replace()
    if v != ref.victim():
        raise Violation("victim", case, f"{where}: victim {v}, reference {ref.victim()}")
    r = list(impl.get_repr())
    if [int(x) for x in r] != [int(x) for x in ref.repr()]:
        raise Violation("representation", case, f"{where}: get_repr() {r}, reference {ref.repr()}")


def check(case, stats):
    if case["kind"] == "wiring":
        return cachehist.check(case, stats, clauses=("resident",), nontrivial="eviction")
    repl, ways = case["repl"], case["ways"]
    impl, ref = _impl(repl, ways), _ref(repl, ways)
    _cmp(case, impl, ref, "initial state")
    changed = False
    for k, w in enumerate(case["path"]):
        before = impl.get_next_to_replace()
        impl.access(w)
        ref.access(w)
        _cmp(case, impl, ref, f"after access #{k} ({w})")
        changed = changed or impl.get_next_to_replace() != before
        snap = (impl.get_next_to_replace(), list(impl.get_repr()))
        impl.access(w)
        if (impl.get_next_to_replace(), list(impl.get_repr())) != snap:
            raise Violation("idempotence", case, f"second access({w}) changed the state")
    stats.count(case, changed, {f"{repl}:{ways}"}, sample_tag=f"policy:{repl}")


def explore(repl, ways, stats, max_states=None):
    """BFS over reachable states; every (state, access) transition is checked once."""
    impl0, ref0 = _impl(repl, ways), _ref(repl, ways)
    case0 = {"kind": "policy", "repl": repl, "ways": ways, "path": []}
    _cmp(case0, impl0, ref0, "initial state")
    seen = {tuple(int(x) for x in impl0.get_repr()): []}
    frontier = [(impl0, ref0, [])]
    states = transitions = victim_changes = 0
    while frontier:
        nxt = []
        for impl, ref, path in frontier:
            states += 1
            for w in range(ways):
                i2, r2 = copy.deepcopy(impl), copy.deepcopy(ref)
                case = {"kind": "policy", "repl": repl, "ways": ways, "path": path + [w]}
                before = i2.get_next_to_replace()
                i2.access(w)
                r2.access(w)
                transitions += 1
                stats.evaluations += 1
                _cmp(case, i2, r2, f"after access({w}) from state {list(impl.get_repr())}")
                if i2.get_next_to_replace() != before:
                    victim_changes += 1
                    stats.nontrivial.add(core.case_hash([repl, ways, list(impl.get_repr()), w]))
                snap = (i2.get_next_to_replace(), list(i2.get_repr()))
                i2.access(w)
                if (i2.get_next_to_replace(), list(i2.get_repr())) != snap:
                    raise Violation("idempotence", case, f"second access({w}) changed the state")
                key = tuple(int(x) for x in i2.get_repr())
                if key not in seen:
                    seen[key] = case["path"]
                    nxt.append((i2, r2, case["path"]))
                    if len(stats.samples) < 3 and len(case["path"]) >= 3:
                        stats.samples.append({"class": f"policy:{repl}:{ways}", "case": case})
        frontier = nxt
    stats.hist[f"{repl}:{ways}:states"] += states
    stats.hist[f"{repl}:{ways}:transitions"] += transitions
    stats.extra["states"] = stats.extra.get("states", 0) + states
    stats.extra["transitions"] = stats.extra.get("transitions", 0) + transitions
    stats.exhaustive_parts.append(f"{repl} {ways} ways: all {states} reachable states x {ways} accesses")
    return states


def corpus():
    return [
        {"kind": "policy", "repl": "lru", "ways": 4, "path": [2, 0, 2, 3, 1, 1, 0]},
        {"kind": "policy", "repl": "plru", "ways": 8, "path": [0, 4, 2, 6, 1, 5, 3, 7, 0, 0, 7]},
        {"kind": "policy", "repl": "plru", "ways": 1, "path": [0, 0]},
    ] + [dict(c, kind="wiring") for c in cachehist.corpus()]


def shards(tier, seed):
    items = []
    lru = [1, 2, 3, 4, 5, 6, 7] if tier == "quick" else [1, 2, 3, 4, 5, 6, 7, 8]
    plru = [1, 2, 4, 8] if tier == "quick" else [1, 2, 4, 8, 16]
    for w in lru:
        items.append({"what": "explore", "repl": "lru", "ways": w})
    for w in plru:
        items.append({"what": "explore", "repl": "plru", "ways": w})
    n = 4 if tier == "quick" else 16
    for i in range(n):
        items.append({"what": "wiring", "n": 150 if tier == "quick" else 1500, "seed": seed * 1000 + i})
    # biggest first for load balance
    items.sort(key=lambda it: -(it.get("ways", 0) ** 3 if it["what"] == "explore" else 1))
    for i in range(2 if tier == "quick" else 8):
        items.append({"what": "machine", "n": 60 if tier == "quick" else 800, "seed": seed * 1000 + 900 + i})
    items.append({"what": "partial"})
    return items


def run_shard(item, stats):
    if item.get("what") == "machine":
        from vf import machines
        return machines.machine_search(machines.cache_machine(stats, ('resident',), 'eviction', True), stats, item["n"], item["seed"])
    km = core.known_matcher(ID, globals().get("known_match"))
    if item["what"] == "partial":
        return core.run_cases((dict(c, kind="wiring") for c in cachehist.partial_fill_cases()), check, stats, km)
    if item["what"] == "explore":
        try:
            explore(item["repl"], item["ways"], stats)
        except Violation as v:
            stats.violations.append({"clause": v.clause, "case": v.case, "detail": v.detail})
    else:
        core.hyp_search(cachehist.history_case(accepted_only=True).map(lambda c: dict(c, kind="wiring")),
                        check, stats, item["n"], item["seed"], km)


def exhaustive_claim(tier, total):
    return {"exhaustive": False, "explanation": "the space of the property as a whole is not finite; exhaustive only for the policy state machines listed under exhaustive_subdomains; the wiring histories are sampled"}
