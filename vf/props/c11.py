"""C11 — the instruction cache is transparent and its fetch accounting matches a reference cache; a reset/reload
leaves neither cached instructions nor counters behind.

case kinds
  {"kind": "prog", prog, regs, mem, max, "icache": cfg, "dcache": cfg|None, "mode": "single"|"five"}
  {"kind": "reload", "p1": prog, "p2": prog, "steps": k, "icache": cfg, "mode": ...}
  {"kind": "fetches", "icache": cfg, "n": instructions, "seq": [instruction index, ...]}     direct fetch history
"""
from __future__ import annotations

from hypothesis import strategies as st

from vf import core, pipedrive, rvdrive, rvtext, snap
from vf.core import Violation
from vf.gen import cachecfg, rvprog
from vf.ref import frontend
from vf.ref.cache import RefCache

ID = "C11"
LEVEL = "exploration"
TECHNIQUE = "differential property testing (I-cache on vs off) plus model-based fetch accounting: a recording proxy yields the fetch log, a read-only reference cache fed that log predicts hits; reload histories"
RULE = ("programs of C02 (loops smaller and larger than the cache, branches into the middle of a block, last block extending past "
        "the program end) x instruction-cache configurations (index bits 0-4, block bits 0-3, ways 1-8, LRU/PLRU, penalty "
        "0-7; biased to tiny caches) x both modes x optional data cache. Oracle: registers, memory, output, exit code and "
        "retire order equal the run without I-cache; every fetch returns the very object stored at that address in the "
        "instruction memory; accesses == length of the fetch log (== instruction count in single-cycle mode); hits and "
        "last_hit == read-only reference cache fed the log; per step delta(cycles) == 1 + penalties. Reload: after running P1 "
        "and loading P2, counters read 0/0/False, no valid block remains, fetches return P2's objects. non-trivial = >=1 "
        "I-cache hit and >=1 replacement, or a reload after the cache held >=1 block; distinct = hash(case)"
        ' A third of the program runs call every inspection function before every step: fetch counters, cycle counter a'
        'nd fetch log must not move.'
        ' In five-stage mode the fetch log must equal the fetch sequence of the structural pipeline model (squashed fet'
        'ches included).')
ASSUMPTIONS = ["the fetch log is taken by an instance-level recording proxy around read_instruction installed by the harness"]
B = rvprog.B


def check_fetches(case, stats):
    """Direct fetch histories (every such address sequence is the fetch trace of some jump-laden program)."""
    ic = case["icache"]
    sim = rvdrive.new_sim("single", True, None, ic)
    n = case["n"]
    how = case.get("load", 0)
    if how == 0:
        sim.state.instruction_memory.write_instructions([rvdrive.mk_ins(["addi", i % 32, 0, i % 2048], 4 * i) for i in range(n)])
    else:
        # the program arrives through load_program (which resets the instruction memory system first) - optionally into a
        # simulation that loaded and fetched from another program before; the configured cache is what serves the fetches
        if how == 2:
            sim.load_program("nop\n" * min(n, 40))
            for a in range(0, 4 * min(n, 40), 4):
                sim.state.instruction_memory.read_instruction(a)
        sim.load_program("".join(f"addi x{i % 32}, x0, {i % 2048}\n" for i in range(n)))
    im = sim.state.instruction_memory
    lower = im.instruction_memory
    ref = RefCache(ic["idx"], ic["blk"], ic["ways"], ic["repl"], "ro")
    pm = sim.state.performance_metrics
    hits = 0
    for k, idx in enumerate(case["seq"]):
        a = 4 * (idx % n)
        c0 = pm.cycles
        got = im.read_instruction(a)
        if got is not lower.read_instruction(a):
            raise Violation("fetch-returns-wrong-instruction", case, f"fetch #{k} at {a:#x} returned {got!r}, the instruction memory holds {lower.read_instruction(a)!r}")
        h = ref.read(a)
        hits += int(h)
        st_ = im.get_cache_stats()
        if (int(st_["hits"]), int(st_["accesses"]), bool(st_["last_hit"])) != (hits, k + 1, h):
            raise Violation("fetch-accounting", case, f"fetch #{k} at {a:#x}: stats {st_}, reference hits={hits} accesses={k + 1} last_hit={h}")
        if pm.cycles - c0 != (0 if h else ic["pen"]):
            raise Violation("miss-penalty", case, f"fetch #{k} at {a:#x}: cycles advanced by {pm.cycles - c0} on a {'hit' if h else 'miss'}")
    stats.count(case, hits >= 1 and ref.evictions >= 1, {"fetches", f"{ic['repl']}:{ic['ways']}"}, sample_tag="fetches")


def check(case, stats):
    if case["kind"] == "reload":
        return check_reload(case, stats)
    if case["kind"] == "fetches":
        return check_fetches(case, stats)
    ic, dc, mode = case["icache"], case.get("dcache"), case["mode"]
    mx = case.get("max", 200)
    cap = mx if mode == "single" else 8 * mx + 32
    off = pipedrive.run(case, mode, True, dc, None, max_steps=cap)
    log = []
    lower = {}

    def hook(sim):
        im = sim.state.instruction_memory
        lower["mem"] = im.instruction_memory
        orig = im.read_instruction

        def rec(address, *a, **k):
            r = orig(address, *a, **k)
            log.append((address, r, im.get_cache_stats()["last_hit"], sim.state.performance_metrics.cycles))
            return r

        im.read_instruction = rec

    def look(sim):
        # read-only queries between steps (C16) are not fetches: the fetch counters and the cycle counter stay put
        im = sim.state.instruction_memory
        s0, c0 = dict(im.get_cache_stats()), sim.state.performance_metrics.cycles
        n0 = len(log)
        for name in snap.RV_INSPECT:
            snap.rv_call(sim, name)
        if dict(im.get_cache_stats()) != s0 or sim.state.performance_metrics.cycles != c0 or len(log) != n0:
            raise Violation("inspection-counted-as-fetch", case, f"inspection between steps: I-cache stats {s0} -> {dict(im.get_cache_stats())}, "
                            f"cycles {c0} -> {sim.state.performance_metrics.cycles}, {len(log) - n0} fetches through the cached instruction memory")

    on = pipedrive.run(case, mode, True, dc, ic, max_steps=cap, sim_hook=hook, pre_step=look if case.get("inspect") else None)
    # transparency of results
    if off.end != on.end or off.pcs != on.pcs:
        raise Violation("program-path", case, f"without I-cache: {off.end} after {len(off.pcs)} instructions; with: {on.end} after {len(on.pcs)}")
    if off.end == "fault" and (off.fault_addr != on.fault_addr or off.fault_regs != on.fault_regs):
        raise Violation("program-fault", case, f"{off.fault_addr} vs {on.fault_addr}")
    if off.final_regs != on.final_regs:
        raise Violation("program-registers", case, "final registers differ with the instruction cache on")
    if off.final_out != on.final_out or off.exit_code != on.exit_code:
        raise Violation("program-output", case, f"{off.final_out!r}/{off.exit_code} vs {on.final_out!r}/{on.exit_code}")
    if off.end != "fault" and off.final_mem != on.final_mem and not dc:
        raise Violation("program-memory", case, "final data memory differs with the instruction cache on")
    # every fetch returns the stored object
    ref = RefCache(ic["idx"], ic["blk"], ic["ways"], ic["repl"], "ro")
    hits = 0
    last = False
    for k, (addr, obj, last_hit, _c) in enumerate(log):
        want = lower["mem"].read_instruction(addr)
        if obj is not want:
            raise Violation("fetch-returns-wrong-instruction", case, f"fetch #{k} at {addr:#x} returned {obj!r}, the instruction memory holds {want!r}")
        h = ref.read(addr)
        hits += int(h)
        last = h
        if bool(last_hit) != h:
            raise Violation("fetch-hit-flag", case, f"fetch #{k} at {addr:#x}: last_hit={last_hit}, reference cache says {'hit' if h else 'miss'}")
    st_ = on.istats
    if int(st_["accesses"]) != len(log):
        raise Violation("fetch-access-counter", case, f"accesses={st_['accesses']}, {len(log)} fetches were performed")
    if int(st_["hits"]) != hits:
        raise Violation("fetch-hit-counter", case, f"hits={st_['hits']}, reference cache fed the fetch log: {hits}")
    if log and bool(st_["last_hit"]) != last:
        raise Violation("fetch-last-hit", case, f"last_hit={st_['last_hit']}, reference {last}")
    if mode == "single" and on.end != "fault" and len(log) != on.metrics["instructions"]:
        raise Violation("one-fetch-per-instruction", case, f"{len(log)} fetches for {on.metrics['instructions']} executed instructions")
    if mode == "five" and on.end in ("done", "cap"):
        # the fetches performed are those of the documented pipeline, squashed (wrong-path) ones included: one per cycle
        # unless the front end is frozen by an interlock / a waiting ecall, redirected the cycle after a taken transfer
        isa = rvdrive.ref_machine(case["prog"], case.get("regs"), case.get("mem"))
        isa.run(on.steps + 1)
        if isa.fault is None:
            fe = frontend.simulate(case["prog"], isa.trace, max_cycles=on.steps if on.end == "cap" else 10 ** 6)
            got = [a for a, _o, _h, _c in log]
            if got != fe["fetches"]:
                d = next((i for i, (x, y) in enumerate(zip(got, fe["fetches"])) if x != y), min(len(got), len(fe["fetches"])))
                raise Violation("fetch-sequence", case, f"{len(got)} fetches, the documented pipeline performs {len(fe['fetches'])}; first difference at fetch #{d}: "
                                f"{got[d:d + 4]} vs {fe['fetches'][d:d + 4]}")
    # penalties: total cycles = steps + penalties (data cache part measured from its own counters)
    dmiss = (int(on.dstats["accesses"]) - int(on.dstats["hits"])) if on.dstats else 0
    exp_cycles = on.steps - (1 if on.end == "fault" else 0) + ic["pen"] * (len(log) - hits) + (dc["pen"] * dmiss if dc else 0)
    if on.end != "fault" and on.metrics["cycles"] != exp_cycles:
        raise Violation("miss-penalty", case, f"cycles={on.metrics['cycles']}, expected steps {on.steps} + {ic['pen']}*{len(log) - hits} I-misses"
                        + (f" + {dc['pen']}*{dmiss} D-misses" if dc else ""))
    tags = {"mode:" + mode, "end:" + on.end}
    if ref.evictions:
        tags.add("replacement")
    if hits:
        tags.add("hit")
    if dc:
        tags.add("with-dcache")
    nblocks = (1 << ic["idx"]) * ic["ways"]
    tags.add("program-larger-than-cache" if len(case["prog"]) * 4 > nblocks * (4 << ic["blk"]) else "program-fits-cache")
    stats.count(case, hits >= 1 and ref.evictions >= 1, tags, sample_tag="prog:" + mode)


def check_reload(case, stats):
    from architecture_simulator.simulation.runtime_errors import InstructionExecutionException
    ic, mode = case["icache"], case["mode"]
    sim = rvdrive.new_sim(mode, True, None, ic)
    t1, t2 = rvtext.render(case["p1"]), rvtext.render(case["p2"])
    sim.load_program(t1)
    try:
        for _ in range(case["steps"]):
            if sim.is_done():
                break
            sim.step()
    except InstructionExecutionException:
        pass
    held = any(b.valid_bit == "1" for z in sim.state.instruction_memory.cache_repr().sets for b in z.blocks)
    low1 = sim.state.instruction_memory.instruction_memory
    p1_objs = [low1.read_instruction(a) for a, _ in low1.get_representation()]   # kept alive, so identities stay unique
    sim.load_program(t2)
    st_ = sim.state.instruction_memory.get_cache_stats()
    if (int(st_["hits"]), int(st_["accesses"]), bool(st_["last_hit"])) != (0, 0, False):
        raise Violation("counters-survive-reload", case, f"after reload: {st_}")
    if any(b.valid_bit == "1" for z in sim.state.instruction_memory.cache_repr().sets for b in z.blocks):
        raise Violation("blocks-survive-reload", case, "a valid instruction-cache block remains after load_program")
    lower = sim.state.instruction_memory.instruction_memory
    n2 = len(lower.get_representation())
    for i in range(n2):
        got = sim.state.instruction_memory.read_instruction(4 * i)
        if got is not lower.read_instruction(4 * i) or any(got is o for o in p1_objs):
            raise Violation("stale-instruction-after-reload", case, f"fetch at {4 * i:#x} after the reload returned {got!r}")
    stats.count(case, held, {"reload", "held-blocks" if held else "cache-was-empty"}, sample_tag="reload")


# ------------------------------------------------------------------------------------------------------------
def icfg():
    tiny = cachecfg.cache_config(max_idx=1, max_blk=2, max_ways=2, types=("wb",))
    mid = st.builds(lambda c, r: dict(c, ways=4, repl=r, idx=min(c["idx"], 1)), cachecfg.cache_config(max_idx=1, max_blk=1, max_ways=4, types=("wb",)),
                    st.sampled_from(["lru", "plru"]))      # 4-way sets that small loops overflow
    return st.one_of(tiny, tiny, mid, mid, cachecfg.cache_config(types=("wb",)))


def prog_case():
    progs = st.one_of(rvprog.program_case(14), rvprog.program_case(30, min_len=12), rvprog.mem_heavy_case(14))
    plain = st.builds(lambda c, i, m: dict(c, kind="prog", icache=i, dcache=None, mode=m, max=200), progs, icfg(), st.sampled_from(["single", "five"]))
    withd = st.builds(lambda c, i, d, m: dict(c, kind="prog", icache=i, dcache=d, mode=m, max=200), rvprog.mem_heavy_case(14), icfg(),
                      cachecfg.small_cache_config(), st.sampled_from(["single", "five"]))
    return st.builds(lambda c, look: dict(c, inspect=True) if look else c, st.one_of(plain, plain, plain, withd), st.sampled_from([False, False, True]))


@st.composite
def fetches_case(draw):
    ic = draw(st.one_of(icfg(), cachecfg.cache_config(max_idx=1, max_blk=1, max_ways=8, types=("wb",))))
    stride = (1 << ic["idx"]) * (1 << ic["blk"])            # in instructions: same set, next tag
    n = min(4096, stride * (ic["ways"] + 3))
    pool = [t * stride + o for t in range(ic["ways"] + 3) for o in range(min(stride, 3))]
    seq = draw(st.lists(st.sampled_from(pool), min_size=2 * ic["ways"] + 2, max_size=60))
    return {"kind": "fetches", "icache": ic, "n": n, "seq": seq, "load": draw(st.sampled_from([0, 1, 1, 2])) if n <= 600 else 0}


def reload_case():
    body = [o for o in rvprog.rv32.ALL_OPS]
    return st.builds(lambda p1, p2, k, i, m: {"kind": "reload", "p1": p1, "p2": p2, "steps": k, "icache": i, "mode": m},
                     rvprog.program(10), rvprog.program(10), st.integers(0, 30), icfg(), st.sampled_from(["single", "five"]))


def corpus():
    loop = [["addi", 5, 0, 3], ["addi", 1, 1, 1], ["addi", 2, 2, 2], ["addi", 3, 3, 3], ["addi", 5, 5, -1], ["bne", 5, 0, -16], ["addi", 6, 0, 1]]
    return [
        {"kind": "prog", "mode": "five", "max": 100, "prog": loop, "regs": {}, "mem": {}, "dcache": None,
         "icache": {"idx": 0, "blk": 1, "ways": 1, "type": "wb", "repl": "lru", "pen": 3}},
        {"kind": "prog", "mode": "single", "max": 100, "prog": loop, "regs": {}, "mem": {}, "dcache": None,
         "icache": {"idx": 1, "blk": 0, "ways": 2, "type": "wb", "repl": "plru", "pen": 1}},
        {"kind": "reload", "mode": "single", "steps": 10, "p1": loop, "p2": [["addi", 1, 0, 1], ["addi", 2, 0, 2]],
         "icache": {"idx": 0, "blk": 2, "ways": 1, "type": "wb", "repl": "lru", "pen": 0}},
    ]


def shards(tier, seed):
    items = []
    if tier == "quick":
        for i in range(3):
            items.append({"what": "prog", "n": 200, "seed": seed * 1000 + i})
        items.append({"what": "reload", "n": 150, "seed": seed * 1000 + 10})
        items.append({"what": "fetches", "n": 300, "seed": seed * 1000 + 20})
    else:
        for i in range(14):
            items.append({"what": "prog", "n": 1800, "seed": seed * 1000 + i})
        for i in range(2):
            items.append({"what": "reload", "n": 1500, "seed": seed * 1000 + 10 + i})
        for i in range(4):
            items.append({"what": "fetches", "n": 2500, "seed": seed * 1000 + 20 + i})
    return items


def run_shard(item, stats):
    km = core.known_matcher(ID, globals().get("known_match"))
    if item["what"] == "prog":
        core.hyp_search(prog_case(), check, stats, item["n"], item["seed"], km)
    elif item["what"] == "fetches":
        core.hyp_search(fetches_case(), check, stats, item["n"], item["seed"], km)
    else:
        core.hyp_search(reload_case(), check, stats, item["n"], item["seed"], km)
