"""C15 — errors are well-typed: loading either succeeds or raises a parser error carrying the 1-based number of an
existing line (or the dedicated size/address error for a program that really does not fit), and always terminates;
every run-time failure is an InstructionExecutionException carrying the address and printed form of the failing
instruction.  Both assemblers.

case kinds
  {"kind": "text", "isa": "riscv"|"toy", "text": str}
  {"kind": "run", "mode": "single"|"five", prog, regs, mem, max}      run-time faults (C01 programs)
  {"kind": "toyrun", ...C06 case...}                                   TOY programs never raise at run time
"""
from __future__ import annotations

import re
import signal

from hypothesis import strategies as st

from vf import core, rvdrive, toydrive
from vf.core import Violation
from vf.gen import asmgen, cachecfg, rvprog
from vf.props import c06, c19
B, T = rvprog.B, rvprog.T
from vf.ref import asm, rv32

ID = "C15"
LEVEL = "exploration"
TECHNIQUE = "grammar-based fault injection + dictionary token soup + raw text fuzzing of both assemblers with an exception-type/line-number oracle and a termination watchdog (Hypothesis; optional Atheris coverage-guided campaign); differential run-time fault reporting against the ISA reference"
RULE = ("texts for both assemblers: (1) valid programs rendered from generated ASTs with 1-3 injected faults (token deleted / "
        "duplicated / swapped, odd number literals such as 007, -01, 0x, 0b2, 40 digits, full-width digits, 1_000, +5; unknown "
        "label/variable/directive; duplicated or misplaced segment directives; labels named like mnemonics/registers; "
        "unterminated strings; # inside strings; CRLF), (2) token soup from a dictionary, (3) raw unicode text. Oracle: "
        "load_program returns or raises ParserException with integer line_number in 1..len(text.splitlines()); "
        "MemorySizeException / MemoryAddressError only when the text can exceed the memory (>= 1300 lines or a >= 2^20 "
        "literal); 120 s watchdog. (4) programs that fault at run time in both modes: only InstructionExecutionException, "
        "address = pc of the failing instruction (ISA reference), instruction_repr = repr of the instruction stored there; "
        "TOY programs never raise. non-trivial = the text raises (any type) / the program faults; distinct = hash(text)"
        ' Every text is loaded a second time into the same simulation (same verdict, same line); run-time failures are '
        'also generated behind data caches (an access pushed across a word boundary or out of range).')
ASSUMPTIONS = [
    "the parser's notion of a line is str.splitlines()",
    "a size/address error counts as legitimate only for texts with >= 1300 lines or a numeric literal >= 2^20",
]


class _Timeout(Exception):
    pass


def _alarm(signum, frame):
    raise _Timeout()


def fit_text(isa, n):
    return ("nop\n" if isa == "riscv" else "NOP\n") * n


def check_fit(case, stats):
    """The size error is for programs that do NOT fit: exactly as many instructions as the instruction memory holds
    (4096) load, one more is rejected with the dedicated error."""
    from architecture_simulator.isa.parser_exceptions import MemorySizeException
    from architecture_simulator.simulation.riscv_simulation import RiscvSimulation
    from architecture_simulator.simulation.toy_simulation import ToySimulation
    from architecture_simulator.uarch.memory.memory import MemoryAddressError
    sim = RiscvSimulation() if case["isa"] == "riscv" else ToySimulation()
    n = case["n"]
    try:
        sim.load_program(fit_text(case["isa"], n))
        outcome = "ok"
    except (MemorySizeException, MemoryAddressError) as ex:
        outcome = type(ex).__name__
    except Exception as ex:
        raise Violation("load-raises-other:" + type(ex).__name__, case, f"{n} instructions: {type(ex).__name__}: {ex}")
    if n <= 4096 and outcome != "ok":
        raise Violation("size-error-for-fitting-program", case, f"{n} instructions fit the instruction memory (4096) but loading raised {outcome}")
    if n > 4096 and outcome == "ok":
        raise Violation("oversize-program-accepted", case, f"{n} instructions were accepted")
    stats.count(case, True, {"fit:" + case["isa"], "outcome:" + outcome}, sample_tag="fit")


def check(case, stats):
    k = case["kind"]
    if k == "fit":
        return check_fit(case, stats)
    if k == "text":
        return check_text(case, stats)
    if k == "run":
        return check_run(case, stats)
    return check_toyrun(case, stats)


def check_text(case, stats):
    from architecture_simulator.isa.parser_exceptions import MemorySizeException, ParserException
    from architecture_simulator.simulation.riscv_simulation import RiscvSimulation
    from architecture_simulator.simulation.toy_simulation import ToySimulation
    from architecture_simulator.uarch.memory.memory import MemoryAddressError
    text = case["text"]
    sim = RiscvSimulation() if case["isa"] == "riscv" else ToySimulation()
    nlines = len(text.splitlines())
    old = signal.signal(signal.SIGALRM, _alarm)
    signal.alarm(120)
    outcome = "ok"
    ln = None
    try:
        try:
            sim.load_program(text)
        finally:
            signal.alarm(0)
            signal.signal(signal.SIGALRM, old)
    except _Timeout:
        raise Violation("load-does-not-terminate", case, "load_program still running after 120 s")
    except ParserException as ex:
        outcome = type(ex).__name__
        ln = ex.line_number
        if not isinstance(ln, int) or isinstance(ln, bool) or not (1 <= ln <= nlines):
            raise Violation("line-number", case, f"{type(ex).__name__} with line_number={ln!r}; the text has {nlines} lines")
    except (MemorySizeException, MemoryAddressError) as ex:
        outcome = type(ex).__name__
        big = nlines >= 1300 or any(len(m) >= 7 and int(m) >= 2 ** 20 for m in re.findall(r"[0-9]{7,}", text)) \
            or any(int(m, 16) >= 2 ** 20 for m in re.findall(r"0x([0-9a-fA-F]{6,})", text))
        if not big:
            raise Violation("size-error-for-small-program", case, f"{type(ex).__name__}: {ex!r}")
    except RecursionError as ex:
        raise Violation("load-raises-other:RecursionError", case, repr(ex)[:200])
    except Exception as ex:
        raise Violation("load-raises-other:" + type(ex).__name__, case, f"{type(ex).__name__}: {ex}")
    # the same text once more into the same (not started) simulation: same verdict, same line
    try:
        sim.load_program(text)
        again = "ok"
    except (ParserException, MemorySizeException, MemoryAddressError) as ex:
        again = type(ex).__name__ + ":" + str(getattr(ex, "line_number", ""))
    except Exception as ex:
        raise Violation("load-raises-other:" + type(ex).__name__, case, f"second load of the same text: {type(ex).__name__}: {ex}")
    first = outcome if outcome == "ok" else outcome + ":" + str(ln if outcome not in ("MemorySizeException", "MemoryAddressError") else "")
    if again != first:
        raise Violation("second-load-differs", case, f"first load: {first}; loading the same text again into the same simulation: {again}")
    stats.count(case, outcome != "ok", {"isa:" + case["isa"], "outcome:" + outcome, "src:" + case.get("src", "?")},
                sample_tag=case["isa"] + ":" + outcome)


def check_run(case, stats):
    from architecture_simulator.simulation.runtime_errors import InstructionExecutionException
    mode = case["mode"]
    sim = rvdrive.new_sim(mode, True, case.get("dcache"), case.get("icache"))
    rvdrive.load(sim, case["prog"], case.get("regs"), case.get("mem"))
    ref = rvdrive.ref_machine(case["prog"], case.get("regs"), case.get("mem"))
    if case.get("dcache"):
        # behind a data cache an access that crosses a word boundary is a run-time failure as well (C03)
        n = 0
        while n < case.get("max", 200) and not ref.done() and ref.fault is None:
            e = rv32.execute(ref.program[ref.pc], ref.pc, lambda r: ref.regs[r], ref.mem)
            acc = e.load or e.store
            if e.fault is None and acc and (acc[0] % 4) + acc[1] > 4:
                ref.fault = (ref.pc, "access crosses a word boundary behind the data cache")
                break
            ref.step()
            n += 1
    else:
        ref.run(case.get("max", 200))
    n = 0
    raised = None
    try:
        while not sim.is_done() and n < 8 * case.get("max", 200) + 32:
            sim.step()
            n += 1
    except InstructionExecutionException as ex:
        raised = ex
    except Exception as ex:
        raise Violation("step-raises-other:" + type(ex).__name__, case, f"{type(ex).__name__}: {ex}")
    if ref.fault is not None:
        if raised is None:
            raise Violation("fault-not-reported", case, f"reference faults at {ref.fault[0]:#x} ({ref.fault[1]})")
        if raised.address != ref.fault[0]:
            raise Violation("fault-address", case, f"exception carries address {raised.address!r}, failing instruction is at {ref.fault[0]:#x}")
        want = repr(sim.state.instruction_memory.read_instruction(ref.fault[0])) if sim.state.instruction_memory.instruction_at_address(ref.fault[0]) else None
        if raised.instruction_repr != want:
            raise Violation("fault-instruction-repr", case, f"instruction_repr {raised.instruction_repr!r}, instruction at that address prints as {want!r}")
        if not isinstance(raised.error_message, str) or not raised.error_message:
            raise Violation("fault-message", case, f"error_message {raised.error_message!r}")
    elif raised is not None and not (ref.done() is False):
        raise Violation("spurious-fault", case, f"{raised!r}")
    stats.count(case, ref.fault is not None, {"run:" + mode, "fault" if ref.fault else "nofault", "run:dcache" if case.get("dcache") else "run:flat"},
                sample_tag="run:" + mode + (":dcache" if case.get("dcache") else ""))


def check_toyrun(case, stats):
    sim, ref = toydrive.build(case)
    n = 0
    try:
        while not sim.is_done() and n < case.get("max", 200):
            sim.step()
            n += 1
    except Exception as ex:
        raise Violation("toy-step-raises", case, f"{type(ex).__name__}: {ex}")
    stats.count(case, False, {"toyrun"}, sample_tag="toyrun")


# ------------------------------------------------------------------------------------------------------------
# text generators
# ------------------------------------------------------------------------------------------------------------
ODD_NUMBERS = ["007", "-01", "0x", "0b2", "1" * 40, "１２", "1_000", "+5", "0x1G", "0b", "-", "--1", "1e3", "0o17", "08", "0x" + "F" * 20, "-0x",
               "0X10", "0B1", "00", "-0", "-007", "0x-1", "٣", "²", "1.5", "0x0x1", "4294967296", "-4294967297", "1073741820", "0b" + "1" * 70, "0x00FF"]
ODD_NAMES = ["add", "sp", "x1", "zero", "nop", "ecall", "text", "data", "li", "la", "x32", "fp", "nosuch", "_", "é", "a-b", "1abc", "word", "string",
             "LDA", "STO", "BRZ", "NOP"]
ODD_LINES = [".data", ".text", ".bss", ".word 5", ".data extra", "..text", ".", ":", "::", "lbl::", "x: .word", "x: .byte 1,", "x: .string \"abc",
             "x: .string \"a#b\"", "x: .string 'q'", "x: .zero -1", "x: .zero 0", "x: .zero 007", "y: .half 1 2", ".text .data", "# only", "\"", "x: .zero 1073741820",
             "x: .word 007", "la x1, x[007]", "lw x1, y[1][2]", "jal x1, lbl+8", "jal x1, lbl+0x", "beq x1, x2, lbl+0x2+0x2", "addi x1, x2", "ecall ecall",
             "nop nop", "lbl: lbl2: nop", "lbl:", "fence x1, x2", "fence", "ebreak", "csrrw x1, 0x300, x2", "LDA", "LDA 1 2", "STO 0x", "lbl: .word 3", "v: .word 0x1G"]
SOUP = (["add", "addi", "sub", "lw", "sw", "lb", "sb", "beq", "bne", "jal", "jalr", "lui", "auipc", "li", "la", "mv", "nop", "ecall", "ebreak", "fence", "csrrw",
         "csrrwi", "slli", "mul", "x0", "x1", "x31", "x32", "a0", "a7", "sp", "fp", "zero", "t0", ",", ",", "(", ")", "[", "]", ":", "+", "-", "#", ".", ".data",
         ".text", ".word", ".byte", ".half", ".string", ".zero", "\"", "\"abc\"", "'", "0", "1", "-1", "007", "0x10", "0b101", "0x", "lbl", "lbl:", "var", "var[1]",
         "var[", "é", "１", "\t", "  ", "LDA", "STO", "BRZ", "ADD", "SUB", "OR", "AND", "XOR", "NOT", "INC", "DEC", "ZRO", "NOP", "0xFFF", "4096", "65536"])
_TOKEN = re.compile(r"\s+|[A-Za-z_][A-Za-z_0-9]*|-?0x[0-9a-fA-F]+|-?0b[01]+|-?[0-9]+|\"[^\"]*\"|.", re.S)


@st.composite
def mutated_text(draw, isa):
    if isa == "riscv":
        ast = draw(asmgen.program_ast(10, min_lines=1))
        text, _ = asm.render(ast, draw(asmgen.tape))
    else:
        c = draw(c19.asm_case())
        from vf.ref import toy as rtoy
        text = rtoy.render(c["ast"], c["style"])
    lines = text.split("\n")
    for _ in range(draw(st.integers(1, 3))):
        m = draw(st.sampled_from(["del", "dup", "swap", "num", "name", "line", "garbage", "crlf", "unterminated", "numany", "unk", "unk",
                                  "dupline", "dupline", "instring"]))
        i = draw(st.integers(0, max(0, len(lines) - 1)))
        toks = _TOKEN.findall(lines[i]) if lines else []
        if m == "line" or not toks:
            lines.insert(i, draw(st.sampled_from(ODD_LINES)))
            continue
        if m == "dupline":
            lines.insert(draw(st.integers(0, len(lines))), lines[i])
            continue
        j = draw(st.integers(0, len(toks) - 1))
        if m == "del":
            del toks[j]
        elif m == "dup":
            toks.insert(j, toks[j])
        elif m == "swap" and len(toks) > 1:
            j = min(j, len(toks) - 2)
            toks[j], toks[j + 1] = toks[j + 1], toks[j]
        elif m in ("num", "numany"):
            nums = [k for k, t in enumerate(toks) if re.fullmatch(r"-?(0x[0-9a-fA-F]+|0b[01]+|[0-9]+)", t)]
            if nums:
                toks[draw(st.sampled_from(nums))] = draw(st.sampled_from(ODD_NUMBERS))
            elif m == "numany":
                toks[j] = draw(st.sampled_from(ODD_NUMBERS))
        elif m == "name":
            names = [k for k, t in enumerate(toks) if re.fullmatch(r"[A-Za-z_][A-Za-z_0-9]*", t)]
            if names:
                toks[draw(st.sampled_from(names))] = draw(st.sampled_from(ODD_NAMES))
        elif m == "unk":
            # an operand identifier (not the first word of the line, not a register) becomes an undeclared name
            words = [k for k, t in enumerate(toks) if re.fullmatch(r"[A-Za-z_][A-Za-z_0-9]*", t)]
            cand = [k for k in words[1:] if not re.fullmatch(r"x[0-9]+|zero|ra|sp|gp|tp|fp|[tsa][0-9]+", toks[k])]
            if cand:
                toks[draw(st.sampled_from(cand))] = draw(st.sampled_from(["nosuch", "undeclared_1", "Q"]))
        elif m == "instring":
            strs = [k for k, t in enumerate(toks) if t.startswith('"') and len(t) >= 2]
            if strs:
                k = draw(st.sampled_from(strs))
                toks[k] = toks[k][:1] + draw(st.sampled_from(["€", "漢", "😀", "é", "\\", "\\n", "'", "\t", "\x7f", "\u0100"])) + toks[k][1:]
        elif m == "garbage":
            toks.insert(j, draw(st.sampled_from(["@", "$", "\\", "\"", "'", "é", "\x00", "\x0b", ";", "//", "/*", "%", "(", ")", "[", "]", ",", "::", " "])))
        elif m == "crlf":
            toks.append("\r")
        elif m == "unterminated":
            toks = [t[:-1] if t.startswith('"') and len(t) > 1 else t for t in toks]
        lines[i] = "".join(toks)
    return {"kind": "text", "isa": isa, "text": "\n".join(lines), "src": "mutated"}


RV_TEMPLATES = ["{lop} {r}, {name}", "{lop} {r}, {name}[{idx}]", "{sop} {r}, {name}, {r}", "{sop} {r}, {name}[{idx}], {r}", "la {r}, {name}", "la {r}, {name}[{idx}]",
                "{bop} {r}, {r}, {name}", "{bop} {r}, {r}, {name}+0x{idx}", "{bop} {r}, {r}, {num}", "jal {r}, {name}", "jal {r}, {num}", "jal {r}, {name}+0x{idx}",
                "{name}:", "{name}: nop", "{name}: li {r}, {num}", "li {r}, {num}", "addi {r}, {r}, {num}", "{lop} {r}, {num}({r})", "{sop} {r}, {num}({r})",
                "nop", "ecall", "mv {r}, {r}", "lui {r}, {num}", "{name}: .word {num}", ".text", ".data", "slli {r}, {r}, {num}", "csrrwi {r}, {num}, {num}"]
RV_DECLS = ["{name}: .word {num}", "{name}: .byte {num}, {num}", "{name}: .half {num}", "{name}: .string \"ab\"", "{name}: .string \"{str}\"", "{name}: .string \"{str}\"", "{name}: .zero {idx}", "{name}: .word", "nop", "{name}:",
            "{name}: .word {num} {num}", ".data", ".text"]
TOY_TEMPLATES = ["{top} {name}", "{top} {name}", "{top} {tnum}", "{top} 0x{idx}", "{nop}", "{nop}", "{name}:", "{name}: {top} {name}", "{name}: {nop}", "{name}: .word {tnum}", ".data", ".text",
                 "{top}", "{nop} {tnum}"]
TOY_DECLS = ["{name}: .word {tnum}", "{name}: .word {tnum}", "{name}: .word {tnum}, {tnum}, 0x{idx}", "{name}: .word", "{nop}", "{name}:", ".text", ".data", "{name}: .word {name}"]


@st.composite
def template_text(draw, isa):
    """Structurally plausible programs whose names may be undeclared / declared twice, segments misplaced, operands odd."""
    names = ["v", "w", "l1", "l2", "nosuch", "v", "l1"]

    def fill(t):
        out = t
        while "{" in out:
            k = out[out.index("{") + 1:out.index("}")]
            val = {"lop": lambda: draw(st.sampled_from(["lw", "lb", "lhu"])), "sop": lambda: draw(st.sampled_from(["sw", "sb", "sh"])),
                   "bop": lambda: draw(st.sampled_from(["beq", "bne", "bltu"])), "r": lambda: draw(st.sampled_from(["x0", "x1", "a0", "t0", "x31", "sp"])),
                   "name": lambda: draw(st.sampled_from(names)), "idx": lambda: draw(st.sampled_from(["0", "1", "2", "4", "8", "99", "A"])),
                   "num": lambda: draw(st.sampled_from(["0", "1", "-1", "2", "3", "4", "-4", "8", "2047", "2048", "4096", "65536", "0x10", "0b11", "-0x8", "4294967295", "6", "10", "100", "0x7FF"] + ODD_NUMBERS[:4])),
                   "str": lambda: draw(st.sampled_from(["", "a€b", "漢", "😀", "é", "a'b", "tab\there", "x" * 40, "\\", "%s", "\x7f", "a\"b", "#"])),
                   "tnum": lambda: draw(st.sampled_from(["0", "1", "7", "4095", "4096", "65535", "65536", "0x10", "0xFFF", "007", "0x", "-1", "0b1", "99999999999"])),
                   "top": lambda: draw(st.sampled_from(["LDA", "STO", "BRZ", "ADD", "lda", "Xor"])), "nop": lambda: draw(st.sampled_from(["NOP", "INC", "zro", "NOT"]))}[k]()
            out = out[:out.index("{")] + val + out[out.index("}") + 1:]
        return out

    T, D = (RV_TEMPLATES, RV_DECLS) if isa == "riscv" else (TOY_TEMPLATES, TOY_DECLS)
    text_lines = [fill(draw(st.sampled_from(T))) for _ in range(draw(st.integers(1, 7)))]
    decl_lines = [fill(draw(st.sampled_from(D))) for _ in range(draw(st.integers(0, 4)))]
    order = draw(st.integers(0, 3))
    if order == 0:
        lines = [".data"] + decl_lines + [".text"] + text_lines
    elif order == 1:
        lines = text_lines + [".data"] + decl_lines
    elif order == 2:
        lines = [".text"] + text_lines + [".data"] + decl_lines
    else:
        lines = text_lines
    return {"kind": "text", "isa": isa, "text": "\n".join(lines), "src": "template"}


def soup_text(isa):
    line = st.lists(st.sampled_from(SOUP), min_size=0, max_size=8).map(lambda ws: " ".join(ws))
    return st.lists(line, min_size=1, max_size=8).map(lambda ls: {"kind": "text", "isa": isa, "text": "\n".join(ls), "src": "soup"})


def raw_text(isa):
    return st.text(max_size=80).map(lambda t: {"kind": "text", "isa": isa, "text": t, "src": "raw"})


def run_case():
    return st.builds(lambda c, m, dc, ic: dict(c, kind="run", mode=m, max=150, dcache=dc, icache=ic), rvprog.program_case(12),
                     st.sampled_from(["single", "five"]), st.one_of(st.none(), cachecfg.small_cache_config(), cachecfg.cache_config()),
                     st.one_of(st.none(), st.none(), cachecfg.small_cache_config()))


@st.composite
def crossing_case(draw):
    """Cache-friendly aligned program in which one load/store is then pushed off its alignment: behind a data cache the
    access crosses a word boundary and must be reported like any other run-time failure."""
    c = draw(rvprog.mem_heavy_case(10))
    idx = [i for i, ins in enumerate(c["prog"]) if ins[0] in rv32.LOAD_OPS + rv32.STORE_OPS]
    if idx:
        i = draw(st.sampled_from(idx))
        ins = list(c["prog"][i])
        base = c["regs"].get("8")
        how = draw(st.sampled_from(["cross", "cross", "range"]))
        if how == "range" and ins[0] in rv32.STORE_OPS + rv32.LOAD_OPS and (ins[1] if ins[0] in rv32.STORE_OPS else ins[2]) == 8 and base in (B, T - 64):
            # ... or keeps its alignment and leaves the valid data range (just below the first data address / wrapping to 0)
            ins[3] = -4 * draw(st.integers(1, 2)) if base == B else 64 + 4 * draw(st.integers(0, 2))
        else:
            ins[3] += draw(st.integers(1, 3))
        c["prog"][i] = ins
    return dict(c, kind="run", mode=draw(st.sampled_from(["single", "five"])), max=150,
                dcache=draw(st.one_of(cachecfg.small_cache_config(), cachecfg.cache_config())), icache=None)


@st.composite
def ecall_fault_case(draw):
    """An ecall that must fail: print-string (a7 = 4) with a0 outside the data memory, or a service code that does not
    exist; surrounded by ordinary instructions, in both modes, with and without a data cache."""
    pre = draw(st.lists(rvprog.instruction([o for o in rv32.ALL_OPS if o not in rv32.BRANCH_OPS + rv32.LOAD_OPS + rv32.STORE_OPS + ["jal", "jalr", "ecall"]]), max_size=3))
    pre = [i for i in pre if rv32.dest(i) not in (10, 17)]
    if draw(st.booleans()):
        bad = draw(st.sampled_from([0, 1, 4, 100, B - 1, B - 4, 0x2000]))
        setup = [["addi", 17, 0, 4]] + ([["addi", 10, 0, bad]] if bad < 2048 else [["lui", 10, bad >> 12], ["addi", 10, 10, bad & 0xFFF]] if (bad & 0xFFF) < 2048
                                        else [["lui", 10, (bad >> 12) + 1], ["addi", 10, 10, (bad & 0xFFF) - 4096]])
    else:
        code = draw(st.sampled_from([0, 3, 5, 6, 9, 12, 33, 36, 92, 94, 2047]))
        setup = [["addi", 17, 0, code]]
    post = draw(st.lists(rvprog.instruction(["addi", "add", "lui"]), max_size=2))
    return {"kind": "run", "mode": draw(st.sampled_from(["single", "five"])), "max": 60, "prog": pre + setup + [["ecall"]] + post, "regs": {}, "mem": {},
            "dcache": draw(st.one_of(st.none(), cachecfg.small_cache_config())), "icache": None}


def corpus():
    t = lambda isa, s: {"kind": "text", "isa": isa, "text": s, "src": "corpus"}  # noqa: E731
    B = rvprog.B
    out = [t("riscv", s) for s in [
        "addi x1, x0, 007", "", "\n\n", ".data\n.data\n", ".text\n.text\nnop", "lbl:\nlbl:\nnop", "beq x1, x2, nowhere", "la x1, nowhere", ".data\nv: .word 1\nv: .word 2\n.text\nnop",
        "addi x1, x0", "x: .word 5", ".data\nnop\n", ".data\nv: .zero 1073741820\nw: .word 1\n", "jal x1, 3", "beq x1, x2, 3", "li x1, 0x", ".data\ns: .string \"abc\n",
        "fence x1, x2", "nop\r\nnop\r\nbogus\r\n", "nop\x0bbogus", "lw x1, -007(x2)", ".data\nv: .byte 08\n", "csrrw x1, 007, x2", "lui x1, -01"]]
    out += [t("toy", s) for s in ["LDA", "LDA 0x", "FOO", "lbl:\nlbl:\nNOP", "LDA nowhere", ".data\nv: .word 1\nv: .word 2\n", ".data\nNOP\n", "v: .word 3", "LDA 007",
                                  ".data\nv: .word 007\n", ".text\n.text\n", "NOP\r\nBOGUS\r\n", ""]]
    out.append({"kind": "run", "mode": "five", "max": 50, "prog": [["addi", 1, 0, 5], ["lw", 2, 0, 0], ["addi", 3, 0, 1]], "regs": {}, "mem": {}})
    out.append({"kind": "run", "mode": "five", "max": 50, "prog": [["addi", 17, 0, 3], ["ecall"], ["addi", 3, 0, 1]], "regs": {}, "mem": {}})
    out.append({"kind": "run", "mode": "single", "max": 50, "prog": [["sw", 8, 1, -4]], "regs": {"8": B}, "mem": {}})
    for m in ("single", "five"):
        out.append({"kind": "run", "mode": m, "max": 50, "prog": [["addi", 1, 0, 5], ["sw", 8, 1, 0], ["lh", 2, 8, 3], ["addi", 3, 0, 1]], "regs": {"8": B},
                    "mem": {}, "dcache": {"idx": 1, "blk": 1, "ways": 2, "type": "wt", "repl": "lru", "pen": 3}, "icache": None})
    return out


def shards(tier, seed):
    items = []
    q = tier == "quick"
    for i, isa in enumerate(["riscv", "toy"]):
        items.append({"what": "mutated", "isa": isa, "n": 700 if q else 12000, "seed": seed * 1000 + i})
        items.append({"what": "soup", "isa": isa, "n": 500 if q else 12000, "seed": seed * 1000 + 10 + i})
        items.append({"what": "template", "isa": isa, "n": 900 if q else 15000, "seed": seed * 1000 + 40 + i})
        items.append({"what": "raw", "isa": isa, "n": 400 if q else 6000, "seed": seed * 1000 + 20 + i})
    items.append({"what": "run", "n": 300 if q else 5000, "seed": seed * 1000 + 30})
    items.append({"what": "crossing", "n": 200 if q else 4000, "seed": seed * 1000 + 32})
    items.append({"what": "ecallfault", "n": 150 if q else 3000, "seed": seed * 1000 + 33})
    items.append({"what": "fit", "cases": [["riscv", 4096], ["toy", 4096], ["toy", 4097]] + ([] if q else [["riscv", 4097], ["riscv", 4095]])})
    items.append({"what": "toyrun", "n": 100 if q else 2000, "seed": seed * 1000 + 31})
    if not q:
        more = []
        for it in items:
            for r in range(3):
                if "seed" in it:
                    more.append(dict(it, seed=it["seed"] + 100 * (r + 1)))
        items += more
        items.append({"what": "atheris", "runs": 400000, "seed": seed})
    return items


def run_shard(item, stats):
    km = core.known_matcher(ID, globals().get("known_match"))
    w = item["what"]
    if w == "mutated":
        core.hyp_search(mutated_text(item["isa"]), check, stats, item["n"], item["seed"], km)
    elif w == "template":
        core.hyp_search(template_text(item["isa"]), check, stats, item["n"], item["seed"], km)
    elif w == "soup":
        core.hyp_search(soup_text(item["isa"]), check, stats, item["n"], item["seed"], km)
    elif w == "raw":
        core.hyp_search(raw_text(item["isa"]), check, stats, item["n"], item["seed"], km)
    elif w == "run":
        core.hyp_search(run_case(), check, stats, item["n"], item["seed"], km)
    elif w == "ecallfault":
        core.hyp_search(ecall_fault_case(), check, stats, item["n"], item["seed"], km)
    elif w == "fit":
        core.run_cases([{"kind": "fit", "isa": i, "n": n} for i, n in item["cases"]], check, stats, km)
    elif w == "crossing":
        core.hyp_search(crossing_case(), check, stats, item["n"], item["seed"], km)
    elif w == "toyrun":
        core.hyp_search(c06.program_case().map(lambda c: dict(c, kind="toyrun", via_text=False)), check, stats, item["n"], item["seed"], km)
    else:
        from vf import fuzz_c15
        fuzz_c15.campaign(item, stats, km)
