"""C18 — flat memory is a little-endian cell store with wrap-around (RISC-V) / without (TOY) and range checks.

case = {"kind": "riscv"|"toy", "ops": [["w", n_cells, addr, value] | ["r", n_cells, addr], ...]}
Oracle: vf.ref.bytestore.CellStore, compared after every operation and by a full scan at the end.
"""
from __future__ import annotations

from hypothesis import strategies as st

from vf import core
from vf.core import Violation
from vf.ref.bytestore import RefAddressError, riscv_store, toy_store

ID = "C18"
LEVEL = "exploration"
TECHNIQUE = ("model-based property testing of read/write histories (with back-references, aliases, reset) against a reference cell store, "
             "plus small-scope exhaustive enumeration of operation sequences at both ends of both memories")
RULE = ("histories of reads/writes (byte/half/word/doubleword; TOY: 1/2/4 cells) drawn by Hypothesis from address "
        "clusters around both ends of the valid range, 0, negative, >=2^32 and random addresses; executed against "
        "the real Memory and a reference cell store, compared after every operation plus a final scan. "
        "non-trivial = some read overlaps cells written by >=2 earlier writes of different widths, or an access "
        "touches a cell within 8 of either end of the valid range (incl. rejected ones); distinct = hash(history) "
        "Histories have back-references (repeat an earlier read; writes at/inside/just before its span, through aliases) and reset(). "
        "Small scope, exhaustively: ALL operation sequences up to the stated length over a window alphabet at both ends of both memories.")
ASSUMPTIONS = [
    "values are passed as fixedint values of the access width, as every caller in the repository does",
    "valid cells of a rejected write that is only partly inside the valid range hold either their old or the new contents (either reading is accepted, anything else is a violation)",
    "byte access to the 16-bit-cell TOY memory is outside the property (raises UnsupportedFunctionError)",
]

B = 2 ** 14
T = 2 ** 32


def _mem(kind):
    from architecture_simulator.uarch.memory.memory import AddressingType, Memory
    from architecture_simulator.uarch.riscv.riscv_architectural_state import RiscvArchitecturalState
    from architecture_simulator.uarch.toy.toy_architectural_state import ToyArchitecturalState
    if kind == "full":
        # the same byte store without a lower bound (full-range, circular), as the repository's cache tests build it:
        # every address is valid and accesses that straddle 2^32 wrap onto 0, 1, ...
        return Memory(AddressingType.BYTE, 32, True)
    if kind == "riscv":
        m = RiscvArchitecturalState().memory  # the memory exactly as the simulator configures it
        if not isinstance(m, Memory):
            raise core.HarnessError("default RISC-V data memory is not a flat Memory")
        return m
    return ToyArchitecturalState().memory


def _fix(kind, n, value):
    import fixedint
    bits = n * (16 if kind == "toy" else 8)
    return {8: fixedint.UInt8, 16: fixedint.UInt16, 32: fixedint.UInt32, 64: fixedint.UInt64}[bits](value)


def _fn(mem, kind, rw, n):
    bits = n * (16 if kind == "toy" else 8)
    name = {8: "byte", 16: "halfword", 32: "word", 64: "doubleword"}[bits]
    return getattr(mem, ("read_" if rw == "r" else "write_") + name)


def check(case, stats):
    from architecture_simulator.uarch.memory.memory import MemoryAddressError
    kind = case["kind"]
    mem = _mem(kind)
    ref = toy_store(len(mem.get_address_range())) if kind == "toy" else riscv_store(mem.get_address_range().start)
    if kind == "riscv" and (mem.get_address_range().start != B or mem.get_address_range().stop != T):
        raise core.HarnessError("unexpected data address range %r" % (mem.get_address_range(),))
    writers: dict[int, tuple[int, int]] = {}  # cell -> (op index, width) of last writer
    nontrivial = False
    tags = set()
    touched = set()
    for idx, op in enumerate(case["ops"]):
        if op[0] == "z":
            # reset(): the store is empty again (every cell reads as zero, nothing of the old contents survives)
            mem.reset()
            ref.cells.clear()
            writers.clear()
            tags.add(f"{kind}:reset")
            continue
        rw, n, addr = op[0], op[1], op[2]
        cls = ref.classify(addr, n)
        tags.add(f"{kind}:{rw}{n}:{cls}")
        for c in ref.cells_of(addr, n):
            touched.add(c)
            if min(abs(c - ref.lo), abs(c - (ref.hi - 1))) <= 8:
                nontrivial = True
        if rw == "w":
            val = op[3]
            try:
                _fn(mem, kind, "w", n)(addr, _fix(kind, n, val))
                raised = None
            except MemoryAddressError as e:
                raised = e
            except Exception as e:
                raise Violation("write-raises-other", case, f"op {idx} {op}: {type(e).__name__}: {e}")
            if cls == "ok":
                if raised is not None:
                    raise Violation("valid-write-rejected", case, f"op {idx} {op}: {raised!r}")
                ref.write(addr, n, val)
                for c in ref.cells_of(addr, n):
                    writers[c] = (idx, n)
            else:
                if raised is None:
                    raise Violation("invalid-write-accepted", case, f"op {idx} {op} touches an invalid address")
                if cls == "partial":
                    # whether the valid cells of a rejected, partly valid write keep their old contents or take the new
                    # ones is unspecified - but each of them holds one of the two ("the most recently written" cell is
                    # either the earlier one or this one, never something else)
                    cb = 16 if kind == "toy" else 8
                    for i, c in enumerate(ref.cells_of(addr, n)):
                        if ref.valid(c):
                            got = int(_fn(mem, kind, "r", 1)(c))
                            old, new = ref.cells.get(c, 0), (val >> (i * cb)) & ((1 << cb) - 1)
                            if got not in (old, new):
                                raise Violation("rejected-write-invented-value", case, f"op {idx} {op}: cell {c:#x} reads {got:#x} after the rejected write; "
                                                f"it held {old:#x}, the write carried {new:#x}")
                            ref.cells[c] = got
                            writers[c] = (idx, n)
        else:
            try:
                got = int(_fn(mem, kind, "r", n)(addr))
                raised = None
            except MemoryAddressError as e:
                raised = e
            except Exception as e:
                raise Violation("read-raises-other", case, f"op {idx} {op}: {type(e).__name__}: {e}")
            if cls == "ok":
                if raised is not None:
                    raise Violation("valid-read-rejected", case, f"op {idx} {op}: {raised!r}")
                exp = ref.read(addr, n)
                if got != exp:
                    raise Violation("read-value", case, f"op {idx} {op}: got {got:#x} expected {exp:#x}")
                ws = {writers[c] for c in ref.cells_of(addr, n) if c in writers}
                if len(ws) >= 2 and len({w for _, w in ws}) >= 2:
                    nontrivial = True
                    tags.add("read-overlaps-mixed-width-writes")
            else:
                if raised is None:
                    raise Violation("invalid-read-accepted", case, f"op {idx} {op} -> {got:#x}")
    # final scan: every touched cell and its neighbourhood reads as the reference says (so rejected accesses and
    # accepted ones changed nothing else)
    scan = set()
    for c in touched:
        for d in range(-2, 3):
            scan.add(c + d)
    for c in sorted(scan):
        if ref.classify(c, 1) != "ok":
            continue
        got = int(_fn(mem, kind, "r", 1)(c))
        exp = ref.read(c, 1)
        if got != exp:
            raise Violation("final-scan", case, f"cell {c:#x}: got {got:#x} expected {exp:#x}")
    # the backing dict holds no cell outside the valid range (an invalid access "changes nothing")
    bad = [a for a in mem.memory_file if a not in mem.get_address_range()]
    if bad:
        raise Violation("invalid-cell-stored", case, f"cells {bad[:4]}")
    stats.count(case, nontrivial, tags)


# ------------------------------------------------------------------------------------------------------------
def _addr_riscv():
    near = st.sampled_from([B, T, 0, B + 64, T - 64, 2 * T, -T, T + B])
    window = st.builds(lambda b, o: b + o, st.sampled_from([B + 64, T - 64, B, T - 8, T + B + 64]), st.integers(0, 7))
    return st.one_of(
        st.builds(lambda b, o: b + o, near, st.integers(-9, 9)),
        window, window, window,
        st.integers(-(2 ** 33), 2 ** 33),
        st.integers(B, T - 1),
    )


def _addr_full():
    window = st.builds(lambda b, o: b + o, st.sampled_from([T - 4, -4, 0, T, 2 * T - 3, B]), st.integers(-4, 8))
    return st.one_of(window, window, window, st.integers(-(2 ** 33), 2 ** 33))


def _addr_toy():
    window = st.builds(lambda b, o: b + o, st.sampled_from([100, 4090, 0]), st.integers(0, 5))
    return st.one_of(
        st.builds(lambda b, o: b + o, st.sampled_from([0, 4095, 4096, 100]), st.integers(-5, 5)),
        window, window, window,
        st.integers(-5000, 9000),
        # far outside: what would alias a valid cell if the address were reduced modulo 2^12, 2^16 or 2^32 (it is not)
        st.builds(lambda k, m: k + m, st.one_of(st.sampled_from([0, 1, 100, 4094, 4095]), st.integers(0, 4095)),
                  st.sampled_from([4096, -4096, 65536, -65536, 2 ** 32, -(2 ** 32), 65536 + 4096, 3 * 4096, 2 ** 31])),
    )


def _ops(kind):
    if kind in ("riscv", "full"):
        widths, addr, cb = [1, 2, 4, 8], (_addr_riscv() if kind == "riscv" else _addr_full()), 8
    else:
        widths, addr, cb = [1, 2, 4], _addr_toy(), 16

    def mk(rw, n, a, v):
        return [rw, n, a] if rw == "r" else [rw, n, a, v & ((1 << (n * cb)) - 1)]

    vals = st.one_of(st.sampled_from([0, 1, 0xFF, 0x80, 0x8000, 0xFFFF, 0x01020304, 0xFFFFFFFF,
                                      0x0102030405060708, 2 ** 64 - 1]), st.integers(0, 2 ** 64 - 1))
    return st.builds(mk, st.sampled_from(["r", "w", "w"]), st.sampled_from(widths), addr, vals)


def strategy(kind, max_ops):
    """Histories with back-references: besides independent operations, an operation may repeat an earlier read
    verbatim, or write exactly at / just before / at the end of an earlier read's span, optionally through an aliased
    spelling of the address (+- k * 2^32 for the wrapping RISC-V memory) - the shapes on which a stale cached read or a
    mis-invalidated span would show."""
    widths = [1, 2, 4] if kind == "toy" else [1, 2, 4, 8]
    cb = 16 if kind == "toy" else 8
    base_op = _ops(kind)

    @st.composite
    def hist(draw):
        n = draw(st.integers(1, max_ops))
        ops = []
        reads = []
        for _ in range(n):
            if ops and draw(st.integers(0, 39)) == 0:
                ops.append(["z"])
                continue
            if reads and draw(st.integers(0, 9)) < 4:
                rn, ra = draw(st.sampled_from(reads[-6:]))
                what = draw(st.sampled_from(["again", "again", "w@start", "w@end", "w-before", "w-alias", "w-inside"]))
                if what == "again":
                    op = ["r", rn, ra]
                else:
                    wn = draw(st.sampled_from(widths))
                    a = {"w@start": ra, "w@end": ra + rn - 1, "w-before": ra - wn + 1, "w-inside": ra + draw(st.integers(0, rn - 1)),
                         "w-alias": ra + draw(st.integers(0, rn - 1))}[what]
                    if what == "w-alias" and kind != "toy":
                        a += draw(st.sampled_from([T, -T, 2 * T]))
                    elif what == "w-alias":
                        a += draw(st.sampled_from([4096, -4096, 65536, -65536, T, -T]))   # no wrap-around: must be rejected
                    v = draw(st.one_of(st.sampled_from([0, 1, 0xFF, 0xA5, 0xFFFF, 0x5AA5C33C, 2 ** 64 - 1]), st.integers(0, 2 ** 64 - 1)))
                    op = ["w", wn, a, v & ((1 << (wn * cb)) - 1)]
            else:
                op = draw(base_op)
            if op[0] == "r":
                reads.append((op[1], op[2]))
            ops.append(op)
        return {"kind": kind, "ops": ops}

    return hist()


def corpus():
    return [
        {"kind": "riscv", "ops": [["w", 4, B, 0x01020304], ["r", 1, B + 3], ["r", 2, B + 1], ["w", 2, B + 1, 0xAABB],
                                  ["r", 4, B], ["r", 8, B - 4], ["w", 4, B - 2, 5], ["r", 4, B]]},
        {"kind": "riscv", "ops": [["w", 4, T - 2, 0x11223344], ["r", 1, T - 1], ["r", 1, T - 2], ["w", 1, T - 1, 0x77],
                                  ["r", 2, 2 * T - 2], ["w", 1, -1, 0x55], ["r", 1, T - 1], ["r", 1, 0]]},
        {"kind": "riscv", "ops": [["w", 4, B + 8, 0x11223344], ["r", 4, B + 8], ["w", 1, B + 9 + T, 0xEE], ["r", 4, B + 8], ["r", 2, B + 8], ["w", 1, B + 8, 7],
                                  ["r", 2, B + 8], ["r", 8, B + 8], ["w", 4, B + 5, 0xA1B2C3D4], ["r", 8, B + 8], ["r", 4, -2 + T + B], ["w", 2, B - 3 + T, 0xFFFF], ["r", 4, B - 2 + T]]},
        {"kind": "toy", "ops": [["w", 1, 4095, 0xBEEF], ["r", 1, 4095], ["w", 2, 4095, 0x12345678], ["r", 1, 4095],
                                ["r", 1, 4096], ["w", 1, -1, 1], ["w", 2, 10, 0xAAAABBBB], ["r", 1, 11], ["r", 4, 8]]},
    ]


WINDOWS = [("riscv", B), ("riscv", T - 2), ("riscv", -2), ("riscv", B + T + 6), ("toy", 4094), ("toy", 0), ("toy", 65536 + 4094), ("full", T - 2)]


def _alphabet(kind, base, reduced):
    """Operations of the small-scope enumeration around one window: every width at every offset, as write (distinct
    non-zero cells), zeroing write and read, plus reset()."""
    offs = [-1, 0, 1, 3] if reduced else [-1, 0, 1, 2, 3]
    widths = [1, 2, 4] if kind == "toy" else ([1, 4] if reduced else [1, 2, 4])
    ops = [["z"]]
    for o in offs:
        for n in widths:
            ops.append(["w", n, base + o, None])
            ops.append(["r", n, base + o])
        ops.append(["w", widths[-1], base + o, 0])
        if not reduced and kind != "toy":
            ops.append(["r", 8, base + o])
    return ops


def exhaustive_cases(length, reduced, part, parts):
    import itertools
    k = 0
    for kind, base in WINDOWS:
        cb = 2 if kind == "toy" else 1
        alpha = _alphabet(kind, base, reduced)
        for seq in itertools.product(range(len(alpha)), repeat=length):
            k += 1
            if k % parts != part:
                continue
            ops = []
            for i, j in enumerate(seq):
                op = list(alpha[j])
                if op[0] == "w" and op[3] is None:   # every cell of every write distinct and non-zero
                    op[3] = int.from_bytes(bytes(((i + 1) << 4) | (c + 1) for c in range(op[1] * cb)), "little")
                ops.append(op)
            yield {"kind": kind, "ops": ops}


def shards(tier, seed):
    if tier == "quick":
        return ([{"kind": k, "n": 700, "ops": 40, "seed": seed * 1000 + i} for i, k in enumerate(["riscv", "toy", "riscv", "full"])]
                + [{"what": "exh", "length": 3, "reduced": True, "part": i, "parts": 4} for i in range(4)])
    items = []
    for i in range(16):
        items.append({"kind": ["toy", "riscv", "riscv", "full"][i % 4], "n": 4000, "ops": 60, "seed": seed * 1000 + i})
    items += [{"what": "exh", "length": 3, "reduced": False, "part": i, "parts": 16} for i in range(16)]
    items += [{"what": "exh", "length": 4, "reduced": True, "part": i, "parts": 32} for i in range(32)]
    return items


def run_shard(item, stats):
    if item.get("what") == "exh":
        core.run_cases(exhaustive_cases(item["length"], item["reduced"], item["part"], item["parts"]), check, stats,
                       core.known_matcher(ID, globals().get("known_match")), distinct=True)
        stats.exhaustive_parts.append(f"all operation sequences of length <= {item['length']} over the {'reduced' if item['reduced'] else 'full'} window alphabet "
                                      f"(write / zeroing write / read of every width at offsets -1..3, reset) at {len(WINDOWS)} windows "
                                      "(both ends of the RISC-V range incl. negative and +2^32 spellings, both ends of the TOY memory)")
        return
    core.hyp_search(strategy(item["kind"], item["ops"]), check, stats, item["n"], item["seed"],
                    core.known_matcher(ID, globals().get("known_match")))
