"""C13 — lifecycle: done is stable, run() equals stepping, step() returns False exactly when done afterwards, an
empty program is done immediately, and loading into a not-yet-started simulation after any earlier (successful or
failed) loads equals a fresh load.  Single-cycle, five-stage and TOY.

case = {"sim": {"kind": "single"|"five"|"toy", "dcache": cfg|None, "icache": cfg|None},
        "loads": [text, ...], "final": text, "bound": steps, "after": [call, ...]}   call in step | run | (toy) first|second|single
"""
from __future__ import annotations

from hypothesis import strategies as st

from vf import core, rvdrive, rvtext, snap
from vf.core import Violation
from vf.gen import cachecfg, rvprog
from vf.props import c19
from vf.ref import toy as rtoy

ID = "C13"
LEVEL = "exploration"
TECHNIQUE = "stateful / model-based property testing of load/step/run histories with snapshot invariants and twin simulations (run() twin, fresh-load twin)"
RULE = ("histories per simulation kind (single-cycle, five-stage with generated cache options, TOY): a sequence of earlier loads "
        "(valid, empty, syntactically broken, semantically broken texts) into a not-started simulation, then the final "
        "program, then step() until done or a bound, then extra step/run (TOY: also half-cycle) calls. Invariants: after the "
        "final load the full snapshot equals that of a fresh simulation of the same configuration; step() returns False "
        "exactly when is_done() holds afterwards; an empty program is done immediately; once done, every further call leaves "
        "the snapshot unchanged; a twin driven by run() ends in the same snapshot (or raises the same fault). non-trivial = "
        ">=1 failed load before the final one, or >=2 calls after done on a program that ended by an exiting ecall / taken "
        "jump; distinct = hash(history)"
        ' Between earlier loads every inspection function is called; after the final load every inspection result is co'
        'mpared with the fresh simulation. Mid-run kind: load, k steps, load (any text), then run() vs stepping on twin'
        's replaying the same history. Rejected VARIANTS of the final program (same labels / variables, failing late) are loaded before it, '
        'and a deterministic family checks that names declared by a rejected text are neither known to nor clash with the next load.')
ASSUMPTIONS = [
    "programs are loaded only while the simulation has not started (the property's precondition)",
    "wall-clock fields of the metrics are excluded from snapshots",
    "run() is only invoked for programs that were observed to terminate by stepping (it would not return otherwise)",
]


def _new(simcfg):
    if simcfg["kind"] == "toy":
        from architecture_simulator.simulation.toy_simulation import ToySimulation
        return ToySimulation()
    return rvdrive.new_sim(simcfg["kind"], True, simcfg.get("dcache"), simcfg.get("icache"))


def _snap(sim, simcfg):
    return snap.toy_snapshot(sim) if simcfg["kind"] == "toy" else snap.rv_snapshot(sim)


def _load(sim, text):
    """-> None on success, exception object on a failed load."""
    from architecture_simulator.isa.parser_exceptions import MemorySizeException, ParserException
    from architecture_simulator.uarch.memory.memory import MemoryAddressError
    try:
        sim.load_program(text)
        return None
    except (ParserException, MemorySizeException, MemoryAddressError) as ex:
        return ex


def check_midrun(case, stats):
    """load/step/run in any interleaving: a simulation that is in the middle of one program is loaded again (with any
    text: valid, empty, failing); from that common state run() must still equal stepping until done, step() must return
    whether the simulation is not done, and done must be stable.  Both twins replay the identical call history."""
    from architecture_simulator.simulation.runtime_errors import InstructionExecutionException
    cfg = case["sim"]
    twins = []
    for _ in range(2):
        s = _new(cfg)
        if _load(s, case["first"]) is not None:
            stats.count(case, False, {"midrun", "first-load-fails"})
            return
        try:
            for _k in range(case["steps"]):
                s.step()
        except InstructionExecutionException:
            # the first program faulted.  If the simulation still says it has NOT started, the reload claim applies to
            # it: loading the second text must give exactly what a fresh simulation gives
            if not s.has_started:
                e1 = _load(s, case["second"])
                f = _new(cfg)
                e2 = _load(f, case["second"])
                if (e1 is None) != (e2 is None) or _snap(s, cfg) != _snap(f, cfg):
                    raise Violation("reload-differs-from-fresh-load", case, f"a simulation whose only step failed reports has_started=False, yet after loading "
                                    f"the next program it differs from a fresh one in {snap.diff_keys(_snap(s, cfg), _snap(f, cfg))}")
            stats.count(case, False, {"midrun", "first-program-faults"})
            return
        err = _load(s, case["second"])
        twins.append((s, err))
    (s1, e1), (s2, e2) = twins
    if (e1 is None) != (e2 is None):
        raise Violation("midrun-load-nondeterministic", case, f"{e1!r} vs {e2!r}")
    if _snap(s1, cfg) != _snap(s2, cfg):
        raise Violation("midrun-load-nondeterministic", case, "two identical call histories gave different states")
    n = 0
    fault = None
    while n < case["bound"] and not s1.is_done():
        try:
            r = s1.step()
        except InstructionExecutionException as ex:
            fault = ex
            break
        except Exception as ex:
            raise Violation("step-raises-other", case, f"{type(ex).__name__}: {ex}")
        n += 1
        if bool(r) != (not s1.is_done()):
            raise Violation("step-return-value", case, f"step #{n} after a mid-run load returned {r!r} but is_done() is {s1.is_done()} afterwards")
    tags = {"midrun", "kind:" + cfg["kind"], "second-load-fails" if e1 is not None else "second-load-ok"}
    if fault is not None:
        try:
            core.call_with_limit(s2.run, 120, "run-does-not-return", case, "run() on a program that stepping finished")
            raise Violation("run-misses-fault", case, f"stepping raised {fault!r}, run() returned normally")
        except InstructionExecutionException as ex:
            if ex.address != fault.address:
                raise Violation("run-fault-differs", case, f"{ex!r} vs {fault!r}")
        stats.count(case, True, tags | {"end:fault"}, sample_tag="midrun:" + cfg["kind"])
        return
    if not s1.is_done():
        stats.count(case, False, tags | {"end:bound"})
        return
    final = _snap(s1, cfg)
    try:
        core.call_with_limit(s2.run, 120, "run-does-not-return", case, "run() on a program that stepping finished")
    except Exception as ex:
        raise Violation("run-raises", case, f"stepping finished normally but run() raised {type(ex).__name__}: {ex}")
    b = _snap(s2, cfg)
    if b != final:
        raise Violation("run-differs-from-stepping", case, f"after a mid-run load: differs in {snap.diff_keys(final, b)} (stepping needed {n} steps)")
    r = s1.step()
    core.call_with_limit(s1.run, 120, "run-does-not-return", case, "run() on a simulation that is done")
    if r is not False or _snap(s1, cfg) != final:
        raise Violation("done-not-stable", case, "step()/run() after done changed the state or step() did not return False")
    stats.count(case, n >= 1, tags | {"end:done", "stepped-after-midrun-load" if n else "done-at-once"}, sample_tag="midrun:" + cfg["kind"])


def check(case, stats):
    from architecture_simulator.simulation.runtime_errors import InstructionExecutionException
    if case.get("kind") == "midrun":
        return check_midrun(case, stats)
    cfg = case["sim"]
    s1 = _new(cfg)
    failed = 0
    probed = 0
    for i, t in enumerate(case["loads"]):
        failed += int(_load(s1, t) is not None)
        if case.get("probe") and case["probe"][i % len(case["probe"])]:
            # observe (and, when there is nothing to execute, poke) the not-yet-started simulation between loads:
            # is_done() is a pure query, and step()/run() on a simulation that is already done are no-ops, so the
            # simulation still "has not started" afterwards
            try:
                # every read-only inspection function is a pure query as well (C16): what it computed for an earlier
                # program must not survive into the next load
                if cfg["kind"] == "toy":
                    for name in snap.TOY_INSPECT:
                        snap.toy_call(s1, name)
                else:
                    for name in snap.RV_INSPECT:
                        snap.rv_call(s1, name)
                    s1.state.instruction_memory.get_representation()
                if s1.is_done() and not s1.has_started:
                    probed += 1
                    s1.step()
                    core.call_with_limit(s1.run, 120, "run-does-not-return", case, "run() on a simulation that is done")
            except Exception as ex:
                raise Violation("probe-raises", case, f"is_done/step/run on a not-started simulation after load #{i}: {type(ex).__name__}: {ex}")
            if s1.has_started:
                raise Violation("no-op-step-started-the-simulation", case, f"step()/run() on a done, not-started simulation set has_started (after load #{i})")
    err1 = _load(s1, case["final"])
    s2 = _new(cfg)
    err2 = _load(s2, case["final"])
    if (err1 is None) != (err2 is None) or (err1 is not None and (type(err1) is not type(err2) or getattr(err1, "line_number", None) != getattr(err2, "line_number", None))):
        raise Violation("reload-outcome-differs", case, f"after earlier loads: {err1!r}; fresh simulation: {err2!r}")
    if case.get("final_valid") and err2 is not None:
        raise Violation("valid-program-rejected", case, f"a well-formed program fails to load into a fresh simulation: {err2!r}")
    a, b = _snap(s1, cfg), _snap(s2, cfg)
    if a != b:
        raise Violation("reload-differs-from-fresh-load", case, f"differs in {snap.diff_keys(a, b)}")
    # ... and so is everything the user is shown (tables, statistics, visualisation lists)
    for name in (snap.TOY_INSPECT if cfg["kind"] == "toy" else snap.RV_INSPECT):
        call = snap.toy_call if cfg["kind"] == "toy" else snap.rv_call
        if call(s1, name) != call(s2, name):
            raise Violation("reload-differs-from-fresh-load", case, f"{name}() after the final load differs from a fresh simulation")
    tags = {"kind:" + cfg["kind"]}
    if failed:
        tags.add("failed-load-before")
    if probed:
        tags.add("probed-while-done-before-final-load")
    if err1 is not None:
        stats.count(case, failed >= 1, tags | {"final-load-fails"}, sample_tag=cfg["kind"] + ":final-fails")
        return
    # empty program
    has = bool(s1.has_instructions())
    if not has:
        if not s1.is_done():
            raise Violation("empty-program-not-done", case, "a program without instructions is not done immediately")
    # step until done / bound / fault
    n = 0
    fault = None
    while n < case["bound"]:
        was_done = bool(s1.is_done())
        before = _snap(s1, cfg) if was_done else None
        try:
            r = s1.step()
        except InstructionExecutionException as ex:
            fault = ex
            break
        except Exception as ex:
            raise Violation("step-raises-other", case, f"{type(ex).__name__}: {ex}")
        n += 1
        done = bool(s1.is_done())
        if bool(r) != (not done):
            raise Violation("step-return-value", case, f"step #{n} returned {r!r} but is_done() is {done} afterwards")
        if was_done:
            if _snap(s1, cfg) != before:
                raise Violation("step-after-done-changes-state", case, f"changed {snap.diff_keys(before, _snap(s1, cfg))}")
            break
        if done:
            break
    ended = "fault" if fault is not None else ("done" if s1.is_done() else "bound")
    tags.add("end:" + ended)
    after_calls = 0
    if ended == "done":
        final = _snap(s1, cfg)
        for call in case["after"]:
            fn = {"step": s1.step, "run": s1.run, "first": getattr(s1, "first_cycle_step", s1.step), "second": getattr(s1, "second_cycle_step", s1.step),
                  "single": getattr(s1, "single_step", s1.step)}[call]
            try:
                r = core.call_with_limit(fn, 120, "run-does-not-return", case, f"{call}() on a simulation that is done")
            except Violation:
                raise
            except Exception as ex:
                raise Violation("call-after-done-raises", case, f"{call}: {type(ex).__name__}: {ex}")
            after_calls += 1
            now = _snap(s1, cfg)
            if now != final:
                raise Violation("done-not-stable", case, f"{call}() after done changed {snap.diff_keys(final, now)}")
            if call == "step" and r is not False:
                raise Violation("step-return-value", case, f"step() after done returned {r!r}")
        # run() twin
        try:
            core.call_with_limit(s2.run, 120, "run-does-not-return", case, "run() on a program that stepping finished")
        except Exception as ex:
            raise Violation("run-raises", case, f"stepping finished normally but run() raised {type(ex).__name__}: {ex}")
        b = _snap(s2, cfg)
        if b != final:
            raise Violation("run-differs-from-stepping", case, f"differs in {snap.diff_keys(final, b)}")
    elif ended == "fault":
        try:
            core.call_with_limit(s2.run, 120, "run-does-not-return", case, "run() on a program that stepping finished")
            raise Violation("run-misses-fault", case, f"stepping raised {fault!r}, run() returned normally")
        except InstructionExecutionException as ex:
            if ex.address != fault.address:
                raise Violation("run-fault-differs", case, f"{ex!r} vs {fault!r}")
    # what ended the program (for the non-triviality rule)
    by_exit = cfg["kind"] != "toy" and s1.state.exit_code is not None
    nt = failed >= 1 or (ended == "done" and after_calls >= 2 and (by_exit or cfg["kind"] == "toy"))
    if by_exit:
        tags.add("ended-by-exit-ecall")
    if not has:
        tags.add("empty-program")
    stats.count(case, nt, tags, sample_tag=cfg["kind"] + ":" + ended)


# ------------------------------------------------------------------------------------------------------------
BROKEN_RV = ["addi x1, x0", "bogus", "beq x1, x2, nowhere", ".data\nv: .word 1\nv: .word 2\n.text\nnop", ".data\nv: .word 5\n.text\nla x1, w", ".text\n.text\nnop",
             "lbl:\nlbl:\nnop", ".data\nnop", "jal x1, 3", "x: .word 5", ".data\nbig: .zero 600\nw: .word 1,2,3\n.text\naddi x1, x0, 1\nbogus line"]
EMPTY = ["", "\n\n", "# nothing", "lbl:\n", ".text\n", ".data\nv: .word 3\n.text\n"]
BROKEN_TOY = ["FOO", "LDA", "LDA nowhere", "lbl:\nlbl:\nNOP", ".data\nv: .word 1\nv: .word 2\n", ".data\nNOP", "v: .word 3", ".data\nv: .word 9, 8\n.text\nINC\nSTO v\nBOGUS"]


RV_FAIL_TAILS = ["beq x0, x0, undeclared_label_q", "jal x0, undeclared_label_q", "bogus_mnemonic x1, x2", "addi x1, x0", "la x1, undeclared_variable_q",
                 "extra_label_q:\nnop\nbne x1, x2, undeclared_label_q", "lw x1, undeclared_variable_q"]
TOY_FAIL_TAILS = ["BRZ undeclared_label_q", "BOGUS", "LDA undeclared_variable_q", "extra_label_q:\nINC\nBRZ undeclared_label_q", "ADD"]


def leak_cases():
    """Deterministic family: what a REJECTED text declared (labels, variables) must not be known to the next load, and must
    not clash with the next load's own declarations - per simulation kind, with the failing line early or late."""
    rv = [
        # (rejected earlier text, final text, final is well-formed)
        ("a:\nnop\nbeq x0, x0, zz\n", "a:\nnop\nbeq x0, x0, a\n", True),
        ("a:\nnop\nbogus\n", "a:\nnop\n", True),
        ("a:\nnop\nb:\nnop\njal x0, zz\n", "nop\nb:\nbeq x0, x0, b\n", True),
        ("a:\nnop\nbeq x0, x0, zz\n", "nop\nbeq x0, x0, a\n", False),
        ("a:\nnop\naddi x1, x0\n", "jal x0, a\n", False),
        (".data\nv: .word 1\n.text\nla x1, v\nbogus\n", ".data\nv: .word 2, 3\n.text\nla x1, v[1]\n", True),
        (".data\nv: .word 1\n.text\nla x1, v\nbeq x0, x0, zz\n", "la x1, v\n", False),
        (".data\nv: .word 1\n.text\nla x1, w\n", ".data\nw: .word 7\nv: .half 1\n.text\nlh x2, v\n", True),
        ("a:\nnop\nbeq x0, x0, zz\n", "zz:\nbeq x0, x0, zz\nnop\n", True),
    ]
    toy = [
        ("a:\nINC\nBRZ zz\n", "a:\nINC\nBRZ a\n", True),
        ("a:\nINC\nBOGUS\n", "INC\na:\nDEC\n", True),
        ("a:\nINC\nBRZ zz\n", "INC\nBRZ a\n", False),
        (".data\nv: .word 1\n.text\nLDA v\nBOGUS\n", ".data\nv: .word 2\n.text\nLDA v\n", True),
        (".data\nv: .word 1\n.text\nLDA v\nBRZ zz\n", "LDA v\n", False),
        (".data\nv: .word 1\n.text\nLDA w\n", ".data\nw: .word 7\nv: .word 1\n.text\nADD v\n", True),
    ]
    for kind, rows in (("single", rv), ("five", rv), ("toy", toy)):
        for bad, final, ok in rows:
            for loads in ([bad], [bad, bad], [final, bad], [bad, ""]):
                yield {"sim": {"kind": kind, "dcache": None, "icache": None} if kind != "toy" else {"kind": "toy"}, "loads": loads, "probe": [True, False],
                       "final": final, "final_valid": ok, "bound": 40, "after": ["step", "run"]}


def rv_program_text():
    from vf.gen import asmgen
    from vf.ref import asm
    progs = st.one_of(rvprog.program(10), rvprog.program(10, aligned_only=True))
    plain = st.builds(lambda p, b: rvtext.render(p, prefix=[["li", 8, b]] if b else []), progs, st.sampled_from([16384, 16384, 0, 16384 + 64]))
    labelled = st.builds(lambda a, t: asm.render(a, t)[0], asmgen.program_ast(8), asmgen.tape)     # labels, data segment, pseudo-instructions
    return st.one_of(plain, plain, labelled)


def toy_program_text():
    return c19.asm_case().map(lambda c: rtoy.render(c["ast"], c["style"]))


@st.composite
def case_strategy(draw):
    kind = draw(st.sampled_from(["single", "five", "five", "toy"]))
    if kind == "toy":
        cfg = {"kind": "toy"}
        good, broken = toy_program_text(), BROKEN_TOY
        after_calls = ["step", "run", "first", "second", "single"]
    else:
        cfg = {"kind": kind, "dcache": draw(cachecfg.maybe(cachecfg.small_cache_config())), "icache": draw(cachecfg.maybe(cachecfg.small_cache_config()))}
        good, broken = rv_program_text(), BROKEN_RV
        after_calls = ["step", "run"]
    anytext = st.one_of(good, st.sampled_from(broken), st.sampled_from(broken), st.sampled_from(EMPTY))
    loads = draw(st.lists(anytext, max_size=4))
    valid = draw(st.integers(0, 4)) < 3
    final = draw(good) if valid else draw(st.one_of(st.sampled_from(EMPTY), st.sampled_from(broken)))
    if valid and draw(st.integers(0, 2)) == 0:
        # a REJECTED VARIANT of the final program is loaded first: the same labels / variables are declared, but the text
        # fails late (undeclared label or variable, unknown mnemonic, malformed operand behind the last line) - whatever
        # the assembler collected from the rejected text must not take part in the next load
        tail = draw(st.sampled_from(TOY_FAIL_TAILS if kind == "toy" else RV_FAIL_TAILS))
        loads = loads + [final.rstrip("\n") + "\n" + tail + "\n"]
        if draw(st.booleans()):
            loads.append(draw(st.sampled_from(EMPTY + broken)))
    if draw(st.integers(0, 3)) == 0:
        # the very same text is loaded again later: P ... (failing / other loads) ... P
        loads = [final] + draw(st.lists(st.one_of(st.sampled_from(broken), st.sampled_from(broken), st.sampled_from(EMPTY), good), min_size=1, max_size=3))
    return {"sim": cfg, "loads": loads, "probe": draw(st.lists(st.booleans(), min_size=1, max_size=4)), "final": final, "final_valid": valid, "bound": draw(st.sampled_from([60, 300])),
            "after": draw(st.lists(st.sampled_from(after_calls), min_size=1, max_size=5))}


@st.composite
def midrun_case(draw):
    kind = draw(st.sampled_from(["single", "five", "five", "five", "toy"]))
    if kind == "toy":
        cfg = {"kind": "toy"}
        good, broken = toy_program_text(), BROKEN_TOY
    else:
        cfg = {"kind": kind, "dcache": draw(cachecfg.maybe(cachecfg.small_cache_config())), "icache": draw(cachecfg.maybe(cachecfg.small_cache_config()))}
        good, broken = rv_program_text(), BROKEN_RV
    second = draw(st.one_of(good, st.sampled_from(EMPTY), st.sampled_from(EMPTY), st.sampled_from(broken)))
    first = draw(good)
    if kind != "toy" and draw(st.integers(0, 4)) == 0:
        first = draw(st.sampled_from(["lw x1, 0(x0)\nnop\n", "nop\nsw x1, 4(x0)\n", "addi a7, x0, 77\necall\nnop\n", "lb x1, -1(x0)\n"]))   # fails in its first steps
    return {"kind": "midrun", "sim": cfg, "first": first, "steps": draw(st.integers(1, 8)), "second": second, "bound": draw(st.sampled_from([60, 300]))}


def corpus():
    return [
        {"sim": {"kind": "five", "dcache": {"idx": 0, "blk": 0, "ways": 1, "type": "wb", "repl": "lru", "pen": 2}, "icache": {"idx": 0, "blk": 1, "ways": 1, "type": "wb", "repl": "lru", "pen": 1}},
         "loads": [BROKEN_RV[10], "bogus", ".data\nq: .word 7\n.text\nla x1, q\nsw x1, 0(x1)"], "final": "addi a7, x0, 93\naddi a0, x0, 3\necall\naddi x1, x0, 1\naddi x2, x0, 2\n",
         "bound": 60, "after": ["step", "run", "step"]},
        {"sim": {"kind": "single", "dcache": None, "icache": None}, "loads": [], "final": "", "bound": 10, "after": ["step", "run"]},
        {"sim": {"kind": "single", "dcache": None, "icache": None}, "loads": ["nop"], "final": "jal x0, 64\nnop", "bound": 10, "after": ["run", "step", "step"]},
        {"sim": {"kind": "toy"}, "loads": [BROKEN_TOY[7], "INC\nINC"], "final": "loop:\nINC\nBRZ end\nZRO\nBRZ end\nend:\n", "bound": 50, "after": ["step", "first", "second", "single", "run"]},
        {"sim": {"kind": "toy"}, "loads": [], "final": "# empty", "bound": 5, "after": ["step", "run", "single"]},
    ]


def shards(tier, seed):
    n, k = (250, 4) if tier == "quick" else (1500, 16)
    return ([{"n": n, "seed": seed * 1000 + i} for i in range(k)] + [{"what": "midrun", "n": n // 2, "seed": seed * 1000 + 500 + i} for i in range(max(1, k // 4))]
            + [{"what": "leak"}])


def run_shard(item, stats):
    if item.get("what") == "leak":
        return core.run_cases(leak_cases(), check, stats, core.known_matcher(ID, globals().get("known_match")))
    strat = midrun_case() if item.get("what") == "midrun" else case_strategy()
    core.hyp_search(strat, check, stats, item["n"], item["seed"], core.known_matcher(ID, globals().get("known_match")))
