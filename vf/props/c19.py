"""C19 — TOY encoding round-trips (all 2^16 words, all instruction objects) and the TOY assembler places code, data
and labels as documented (reference assembler on a generated AST), incl. the documented example programs.

case kinds
  {"kind": "words", "lo": a, "hi": b}                       decode/encode of every word in [lo, hi)
  {"kind": "objects", "mn": mnemonic, "lo": a, "hi": b}     encode/decode of instruction objects
  {"kind": "asm", "ast": {...}, "style": {...}}            source text rendered from the AST
  {"kind": "example", "which": 0|1|2}                       documented example programs
"""
from __future__ import annotations

from hypothesis import strategies as st

from vf import core
from vf.core import Violation
from vf.ref import toy as rtoy

ID = "C19"
LEVEL = "exploration"
EXHAUSTIVE = True
TECHNIQUE = "exhaustive enumeration of all 65536 instruction words and all instruction objects (round-trip oracle); grammar-based property testing of the TOY assembler against a reference assembler; documented examples"
RULE = ("(a) ALL 65536 words: int(from_integer(w)) == w with opcodes 13-15 mapped to 12, class = the opcode's class, address "
        "field preserved; (b) ALL 13 classes x 4096 addresses: from_integer(int(ins)) equals ins (class, opcode, address); "
        "(c) Hypothesis source texts from the documented grammar (stand-alone/in-line labels, data before/after text, arrays, "
        "forward references, decimal/hex operands, case, comments, blank lines, indentation) assembled by the simulator and "
        "by a reference assembler on the same AST: full memory image and max_pc must agree; (d) the documented examples "
        "compute 55 / 4 / 1. non-trivial = (asm) data declared before text and a forward label reference, or an in-line "
        "label that is referenced; words/objects count as one non-trivial case per opcode block; distinct = hash(case)")
ASSUMPTIONS = ["label/variable names never equal a mnemonic; numeric operands are 12-bit, data values 16-bit"]


def fit_ast(ni, sizes, data_first):
    """ni instructions and variables of the given sizes: programs that fill the 4096-word memory (almost) exactly."""
    data = [{"name": "v%d" % j, "values": [(7 * j + i) & 0xFFFF for i in range(n)]} for j, n in enumerate(sizes)]
    refs = [d["name"] for d in data]
    text = []
    for i in range(ni):
        mn = (rtoy.ADDR_OPS + rtoy.MNEMONICS)[i % 7]
        arg = None
        if mn in rtoy.ADDR_OPS:
            arg = {"ref": refs[i % len(refs)]} if refs and i % 3 else {"num": (i * 37) % 4096, "hex": bool(i % 2)}
        text.append({"op": mn, "arg": arg, "inline": "l%d" % i if i % 1000 == 999 else None})
    return {"data_first": data_first, "data": data, "text": text, "directives": True, "text_directive": True, "data_directive": True}


def fit_cases():
    for total in (4096, 4095):
        for ni, sizes in ((total - 96, [90, 5, 1]), (total - 1, [1]), (1, [total - 1]), (total // 2, [total - total // 2])):
            for data_first in (False, True):
                yield {"kind": "fit", "ni": ni, "sizes": sizes, "data_first": data_first}
    yield {"kind": "fit", "ni": 4096, "sizes": [], "data_first": False}


def check(case, stats):
    k = case["kind"]
    if k == "fit":
        ast = fit_ast(case["ni"], case["sizes"], case["data_first"])
        st2 = core.Stats()
        try:
            check_asm({"kind": "asm", "ast": ast, "style": {}}, st2)
        except Violation as v:
            raise Violation(v.clause, case, v.detail[:600])
        stats.count(case, case["ni"] + sum(case["sizes"]) == 4096, {"fit", "fit-total:%d" % (case["ni"] + sum(case["sizes"]))}, sample_tag="fit")
        return
    if k == "words":
        return check_words(case, stats)
    if k == "objects":
        return check_objects(case, stats)
    if k == "example":
        return check_example(case, stats)
    return check_asm(case, stats)


def check_words(case, stats):
    from architecture_simulator.isa.toy.toy_instructions import ToyInstruction, instruction_map
    for w in range(case["lo"], case["hi"]):
        ins = ToyInstruction.from_integer(w)
        op, mn, addr = rtoy.decode(w)
        if type(ins) is not instruction_map[mn]:
            raise Violation("decode-class", dict(case, lo=w, hi=w + 1), f"word {w:#06x} decodes to {type(ins).__name__}, expected {mn}")
        if int(ins) != rtoy.canonical(w):
            raise Violation("decode-encode", dict(case, lo=w, hi=w + 1), f"word {w:#06x}: int(from_integer(w)) = {int(ins):#06x}, expected {rtoy.canonical(w):#06x}")
        if ins.address_section_value() != addr or ins.op_code_value() != op:
            raise Violation("decode-fields", dict(case, lo=w, hi=w + 1), f"word {w:#06x}: opcode {ins.op_code_value()}, address {ins.address_section_value()}")
        stats.evaluations += 1
    stats.evaluations -= 1
    stats.count(case, True, {"words"}, sample_tag="words")
    stats.exhaustive_parts.append("all 65536 instruction words (decode -> encode)")


def check_objects(case, stats):
    from architecture_simulator.isa.toy.toy_instructions import ToyInstruction, instruction_map
    mn = case["mn"]
    cls = instruction_map[mn]
    for a in range(case["lo"], case["hi"]):
        ins = cls(a)
        w = int(ins)
        exp = (rtoy.MNEMONICS.index(mn) << 12) | a
        if w != exp:
            raise Violation("encode", dict(case, lo=a, hi=a + 1), f"{mn}({a}) encodes to {w:#06x}, expected {exp:#06x}")
        back = ToyInstruction.from_integer(w)
        if type(back) is not cls or back.opcode != ins.opcode or back.address != ins.address or not (back == ins):
            raise Violation("encode-decode", dict(case, lo=a, hi=a + 1), f"{mn}({a}) -> {w:#06x} -> {back!r} (address {back.address})")
        stats.evaluations += 1
    stats.evaluations -= 1
    stats.count(case, True, {"objects"}, sample_tag="objects")
    stats.exhaustive_parts.append("all 13 instruction classes x 4096 addresses (encode -> decode)")


def _load(text, mem_size=None):
    from architecture_simulator.simulation.toy_simulation import ToySimulation
    sim = ToySimulation(unified_memory_size=mem_size) if mem_size else ToySimulation()
    sim.load_program(text)
    return sim


def check_asm(case, stats):
    ast, style = case["ast"], case["style"]
    text = rtoy.render(ast, style)
    # the simulation may be built with a smaller unified memory (constructor parameter): its top is where the data goes
    need = sum(1 for i in ast["text"] if "label" not in i) + sum(len(v["values"]) for v in ast["data"])
    size = case.get("mem_size") if case.get("mem_size") and need <= case["mem_size"] else None
    exp = rtoy.assemble(ast, size or 4096)
    try:
        sim = _load(text, size)
    except Exception as ex:
        raise Violation("well-formed-program-rejected", case, f"{type(ex).__name__}: {ex!r}\n{text}")
    got = {int(a): int(v) for a, v in sim.state.memory.memory_file.items()}
    for a in sorted(set(got) | set(exp["mem"])):
        if got.get(a, 0) != exp["mem"].get(a, 0):
            what = "instruction" if a <= exp["max_pc"] else "data"
            raise Violation("image-" + what, case, f"cell {a} ({what}): {got.get(a, 0):#06x}, reference {exp['mem'].get(a, 0):#06x}\n{text}")
    mp = sim.state.max_pc
    if (mp if mp is not None else -1) != exp["max_pc"]:
        raise Violation("max-pc", case, f"max_pc {mp!r}, reference {exp['max_pc']}\n{text}")
    # non-triviality
    pos = {}
    pc = 0
    for item in ast["text"]:
        if "label" in item:
            pos[item["label"]] = pc
        else:
            if item.get("inline"):
                pos[item["inline"]] = pc
            pc += 1
    fwd = inline_ref = False
    pc = 0
    inl = {i["inline"] for i in ast["text"] if i.get("inline")}
    for item in ast["text"]:
        if "label" in item:
            continue
        r = (item.get("arg") or {}).get("ref")
        if r in pos and pos[r] > pc:
            fwd = True
        if r in inl:
            inline_ref = True
        pc += 1
    tags = {"asm"}
    if size:
        tags.add("smaller-memory")
    if ast.get("data_first"):
        tags.add("data-first")
    if fwd:
        tags.add("forward-ref")
    if inline_ref:
        tags.add("inline-label-ref")
    if any(len(v["values"]) > 1 for v in ast["data"]):
        tags.add("array")
    stats.count(case, (bool(ast.get("data_first")) and bool(ast["data"]) and fwd) or inline_ref, tags, sample_tag="asm")


EXAMPLES = [
    ("# computes the sum of the numbers from 1 to n\n.data\n    n: .word 10 # enter n here\n    result: .word 0\n.text\n    LDA n # skip to the end if n=0\n"
     "    BRZ end\n    loop:\n        LDA result\n        ADD n\n        STO result\n        LDA n\n        DEC\n        STO n\n        BRZ end\n"
     "        ZRO\n        BRZ loop\n    end:\n", 4094, 55),
    ("# store second value of my_tuple in my_value\n.data\n    my_tuple: .word 3, 4\n    my_value: .word 0\n.text\n"
     "    LDA my_load_instruction     # load 'LDA my_tuple' (LDA 0xFFE) into accu\n    INC                         # increment address in LDA instruction\n"
     "    STO my_load_instruction     # store 'LDA 0xFFF' at my_load_instruction\n    my_load_instruction:        # this label points to the memory location of LDA instruction\n"
     "    LDA my_tuple                # actually load data at my_tuple + 1 (=0xFFF)\n    STO my_value                # store value of second tuple entry at my_value (0xFFD)\n", 0xFFD, 4),
    (".data\n    my_array: .word 7, 0x00F, 3 # my_array points to the address of the first element of the array\n    my_var: .word 7\n    my_result: .word 0\n.text\n"
     "    # check if the first element of my_array is equal to my_var and store result in my_result\n    LDA my_array\n    SUB my_var\n    BRZ true\n    ZRO\n    BRZ end\n"
     "    true:\n        INC\n        STO my_result\n    end:\n", 4095 - 3 - 1 - 1 + 1, 1),
]


def check_example(case, stats):
    text, cell, expected = EXAMPLES[case["which"]]
    try:
        sim = _load(text)
        core.call_with_limit(sim.run, 120, "run-does-not-return", case, "run() of a documented example program")
    except Exception as ex:
        raise Violation("example-fails", case, f"{type(ex).__name__}: {ex!r}")
    got = int(sim.state.memory.read_halfword(cell))
    if got != expected:
        raise Violation("example-result", case, f"example {case['which']}: cell {cell:#05x} = {got}, documented result {expected}")
    stats.count(case, True, {"example"}, sample_tag="example")


# ------------------------------------------------------------------------------------------------------------
NAMES = ["a", "b", "x1", "loop", "end", "l_2", "my_var", "v9", "_t", "Data", "n", "result", "lbl", "z_", "k3", "go"]


@st.composite
def asm_case(draw):
    names = draw(st.lists(st.sampled_from(NAMES), min_size=0, max_size=8, unique=True))
    nvars = draw(st.integers(0, min(3, len(names))))
    var_names, label_names = names[:nvars], names[nvars:]
    data = [{"name": v, "values": draw(st.lists(st.one_of(st.sampled_from([0, 1, 7, 15, 0xFFFF, 0x8000, 255]), st.integers(0, 0xFFFF)),
                                                 min_size=1, max_size=4))} for v in var_names]
    n_instr = draw(st.integers(0 if (label_names or var_names) else 1, 12))
    # place labels: each at a position 0..n_instr, either stand-alone or in-line (in-line needs an instruction there)
    items = []
    places = {}
    for l in label_names:
        places.setdefault(draw(st.integers(0, n_instr)), []).append(l)
    refs = var_names + label_names
    for i in range(n_instr + 1):
        here = places.get(i, [])
        inline = None
        if here and i < n_instr and draw(st.booleans()):
            inline = here[-1]
            here = here[:-1]
        for l in here:
            items.append({"label": l})
        if i < n_instr:
            mn = draw(st.sampled_from(rtoy.MNEMONICS + rtoy.ADDR_OPS))
            arg = None
            if mn in rtoy.ADDR_OPS:
                if refs and draw(st.integers(0, 2)):
                    arg = {"ref": draw(st.sampled_from(refs))}
                else:
                    arg = {"num": draw(st.one_of(st.sampled_from([0, 1, 9, 10, 0xFFF, 0x400, 0x7FF, 0x800, 100]), st.integers(0, 4095))),
                           "hex": draw(st.booleans())}
            items.append({"op": mn, "arg": arg, "inline": inline})
    data_first = bool(draw(st.booleans()))
    ast = {"data_first": data_first, "data": data, "text": items,
           "directives": draw(st.booleans()) or data_first, "text_directive": True if data_first else draw(st.booleans()),
           "data_directive": bool(data) or draw(st.booleans())}
    if not data and not data_first:
        ast["data_directive"] = draw(st.booleans())
    style = {
        "case": draw(st.lists(st.sampled_from(["upper", "lower", "mixed"]), min_size=1, max_size=4)),
        "indent": draw(st.lists(st.sampled_from(["", "  ", "\t", "    "]), min_size=1, max_size=4)),
        "comments": draw(st.lists(st.sampled_from(["", "", " # note", "#x", "  # LDA 5", ' # "q"', " # a: .word 1", " ## #", " # é", " # don't", ' # 5" tall, it\'s', " # 'x' \"y\" 'z"]), min_size=1, max_size=4)),
        "blank": draw(st.lists(st.booleans(), min_size=1, max_size=3)),
        "blankline": draw(st.lists(st.sampled_from(["", "   ", "# only a comment", "\t", '# "', "# .data"]), min_size=1, max_size=2)),
        "trailing_newline": draw(st.booleans()),
        "num": draw(st.lists(st.integers(0, 3), min_size=1, max_size=4)),
    }
    return {"kind": "asm", "ast": ast, "style": style, "mem_size": draw(st.sampled_from([None, None, None, 1024, 256, 100, 2048]))}


def corpus():
    return [{"kind": "example", "which": i} for i in range(3)] + [
        {"kind": "words", "lo": 0xC000, "hi": 0xC010}, {"kind": "words", "lo": 0xD000, "hi": 0xD010},
        {"kind": "objects", "mn": "NOT", "lo": 0, "hi": 8},
        {"kind": "asm", "style": {}, "ast": {"data_first": True, "directives": True, "text_directive": True, "data_directive": True,
                                             "data": [{"name": "arr", "values": [7, 15, 3]}, {"name": "v", "values": [7]}],
                                             "text": [{"op": "LDA", "arg": {"ref": "arr"}, "inline": "start"}, {"op": "BRZ", "arg": {"ref": "end"}, "inline": None},
                                                      {"op": "STO", "arg": {"num": 0x400, "hex": True}, "inline": None}, {"label": "end"}]}},
    ]


def shards(tier, seed):
    items = []
    for i in range(16):
        items.append({"what": "words", "lo": i * 4096, "hi": (i + 1) * 4096})
    for mn in rtoy.MNEMONICS:
        items.append({"what": "objects", "mn": mn})
    n, k = (500, 4) if tier == "quick" else (3000, 16)
    for i in range(k):
        items.append({"what": "asm", "n": n, "seed": seed * 1000 + i})
    for i in range(4):
        items.append({"what": "fit", "part": i, "parts": 4})
    return items


def run_shard(item, stats):
    km = core.known_matcher(ID, globals().get("known_match"))
    if item["what"] == "words":
        core.run_cases([{"kind": "words", "lo": item["lo"], "hi": item["hi"]}], check, stats, km)
    elif item["what"] == "fit":
        core.run_cases([c for i, c in enumerate(fit_cases()) if i % item["parts"] == item["part"]], check, stats, km)
    elif item["what"] == "objects":
        core.run_cases([{"kind": "objects", "mn": item["mn"], "lo": 0, "hi": 4096}], check, stats, km)
    else:
        core.hyp_search(asm_case(), check, stats, item["n"], item["seed"], km)


def exhaustive_claim(tier, total):
    return {"exhaustive": False, "explanation": "the space of the property as a whole is not finite; exhaustive only for the encode/decode sub-domains listed under exhaustive_subdomains; assembler texts are sampled"}
