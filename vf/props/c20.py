"""C20 — TOY two-phase stepping: whole steps, explicit half-cycle calls and single-cycle steps are equivalent at
every instruction boundary; out-of-order calls raise a sequencing error and change nothing; everything is a no-op
once the program is done.

case = C06 program fields + {"sched": [[call, ...], [call, ...]]} with call in step | first | second | single;
each schedule drives its own simulation and is compared with a twin that only ever uses step().
"""
from __future__ import annotations

import copy

from hypothesis import strategies as st

from vf import core, toydrive
from vf.core import Violation
from vf.props import c06

ID = "C20"
LEVEL = "exploration"
TECHNIQUE = "stateful / model-based property testing of call histories (valid and invalid orders) with a step()-only twin simulation as the oracle; small-scope exhaustive enumeration of all call sequences over the five stepping entry points on tiny programs"
RULE = ("TOY programs of C06 x two generated call schedules over {step, first_cycle_step, second_cycle_step, single_step} "
        "(legal and illegal orders, continuing after done). A phase model decides which calls are legal; at every instruction "
        "boundary the full state snapshot, get_memory_table_entries() (cycle markers), get_register_representations() and "
        "get_toy_svg_update_values() must equal those of a twin driven only by step(); an illegal call must raise "
        "StepSequenceError and leave the snapshot unchanged; after done every call must be a silent no-op. non-trivial = "
        "history with >=1 illegal call mid-program and >=1 store into the program area; distinct = hash(case) "
        "Small scope, exhaustively: ALL call sequences up to the stated length over the five stepping entry points (run() included) "
        "on seven tiny programs; plus instruction-less programs and self-branching loops under fixed schedules.")
ASSUMPTIONS = ["the step()-only twin is the oracle for equivalence (its absolute correctness is C06)"]


def _observe(sim):
    s = toydrive.snapshot(sim)
    s["table"] = [list(map(str, e[0])) + list(e[1]) + [e[2], e[3]] for e in sim.get_memory_table_entries()]
    s["regs"] = {k: list(v) for k, v in sim.get_register_representations().items()}
    s["svg"] = [[str(x) for x in t] for t in sim.get_toy_svg_update_values()]
    return s


def _diff(a, b):
    return [k for k in a if a[k] != b.get(k)]


EMPTY_TEXTS = ["", "\n", "# nothing here\n", ".data\nv: .word 3, 4\n", ".text\n", "lbl:\n", ".data\nq: .word 0xFFFF\n.text\nend:\n"]


def check_empty(case, stats):
    """A program without instructions is done from the start: every stepping call, in any order, is a no-op (state,
    counters, visualisation values and the has_started flag stay as loaded) and none raises."""
    from architecture_simulator.simulation.toy_simulation import ToySimulation
    from vf import snap
    text = EMPTY_TEXTS[case["text"] % len(EMPTY_TEXTS)]
    for si, sched in enumerate(case["sched"]):
        sim = ToySimulation()
        sim.load_program(text)
        if not sim.is_done():
            raise Violation("empty-program-not-done", case, f"{text!r} is not done after loading")
        before = snap.toy_snapshot(sim)
        for ci, call in enumerate(sched):
            fn = {"step": sim.step, "first": sim.first_cycle_step, "second": sim.second_cycle_step, "single": sim.single_step, "run": sim.run}[call]
            try:
                fn()
            except Exception as ex:
                raise Violation("call-raises-other", case, f"schedule {si} call #{ci} {call} on a program without instructions: {type(ex).__name__}: {ex}")
            after = snap.toy_snapshot(sim)
            if after != before:
                raise Violation("call-after-done-changed-state", case, f"schedule {si} call #{ci} {call} on a program without instructions changed {_diff(before, after)}")
    stats.count(case, True, {"empty-program"}, sample_tag="empty")


def check(case, stats):
    from architecture_simulator.simulation.runtime_errors import StepSequenceError
    if case.get("kind") == "empty":
        return check_empty(case, stats)
    illegal_mid = 0
    flags = set()
    for si, sched in enumerate(case["sched"]):
        twin, ref = toydrive.build(case)
        drv, _ = toydrive.build(case)
        phase = 1
        completed = 0
        for ci, call in enumerate(sched):
            done = bool(twin.is_done())
            before = toydrive.snapshot(drv)
            if call == "run":
                # run() = whole steps until done: legal at an instruction boundary (only tried when the reference machine
                # stops within a bound - a non-terminating program would never return), a sequencing error in mid-instruction
                if phase == 1 and not done:
                    probe = copy.deepcopy(ref)
                    k = 0
                    while not probe.done() and k < 400:
                        probe.step()
                        k += 1
                    if not probe.done():
                        continue
            fn = {"step": drv.step, "first": drv.first_cycle_step, "second": drv.second_cycle_step, "single": drv.single_step, "run": drv.run}[call]
            legal = done or (phase == 1 and call in ("step", "first", "single", "run")) or (phase == 2 and call in ("second", "single"))
            where = f"schedule {si} call #{ci} {call} (phase {phase}, {completed} instructions completed, done={done})"
            try:
                if call == "run":
                    core.call_with_limit(fn, 10, "run-does-not-return", case, where)   # the reference stops within 400 steps (~10 ms)
                else:
                    fn()
                raised = None
            except StepSequenceError as ex:
                raised = ex
            except Exception as ex:
                raise Violation("call-raises-other", case, f"{where}: {type(ex).__name__}: {ex}")
            if not legal:
                illegal_mid += 1
                if raised is None:
                    raise Violation("illegal-call-accepted", case, where)
                after = toydrive.snapshot(drv)
                if after != before:
                    raise Violation("illegal-call-changed-state", case, f"{where}: changed {_diff(before, after)}")
                continue
            if raised is not None:
                raise Violation("legal-call-rejected", case, f"{where}: {raised!r}")
            if done:
                after = toydrive.snapshot(drv)
                if after != before:
                    raise Violation("call-after-done-changed-state", case, f"{where}: changed {_diff(before, after)}")
                continue
            # legal call while running: advance the phase model
            if call == "run":
                while not ref.done():
                    completed += 1
                    twin.step()
                    ref.step()
                a, b = _observe(drv), _observe(twin)
                if a != b:
                    raise Violation("boundary-state-differs", case, f"{where}: run() differs from the step()-only twin in {_diff(a, b)}")
                continue
            if call == "step":
                boundary = True
            elif phase == 1:
                phase, boundary = 2, False
            else:
                phase, boundary = 1, True
            if boundary:
                completed += 1
                twin.step()
                ref.step()
                a, b = _observe(drv), _observe(twin)
                if a != b:
                    raise Violation("boundary-state-differs", case, f"{where}: differs from the step()-only twin in {_diff(a, b)}")
            else:
                if int(drv.next_cycle) != 2:
                    raise Violation("phase-flag", case, f"{where}: next_cycle={drv.next_cycle} after a first half-cycle")
        flags |= ref.flags
    nt = illegal_mid >= 1 and "store-into-program" in flags
    tags = set()
    if illegal_mid:
        tags.add("illegal-call")
    if "store-into-program" in flags:
        tags.add("self-modifying")
    if "brz-taken" in flags:
        tags.add("brz-taken")
    if case.get("kind") == "exh":
        tags.add("exhaustive-schedules")
        nt = illegal_mid >= 1
    stats.count(case, nt, tags, sample_tag="exh" if case.get("kind") == "exh" else "history")


CALLS = ["step", "first", "second", "single"]


@st.composite
def case_strategy(draw):
    prog = draw(c06.program_case())
    prog["via_text"] = False
    # encourage stores into the program area
    if draw(st.booleans()) and prog["len"] >= 2:
        prog["first"] = ["STO", draw(st.integers(1, min(prog["len"] - 1, 8)))]
    sched = []
    for _ in range(2):
        # mostly legal pairs with sprinkled illegal calls
        seq = []
        for _ in range(draw(st.integers(1, 30))):
            seq += draw(st.sampled_from([["step"], ["first", "second"], ["single", "single"], ["first", "single"], ["single", "second"],
                                         ["first", "first", "second"], ["first", "step", "second"], ["second"], ["single"],
                                         ["first", "second", "second"], ["single", "step", "single"]]))
        if draw(st.integers(0, 2)) == 0:
            # ... ending in run(), at an instruction boundary or in mid-instruction
            seq += draw(st.sampled_from([["run"], ["first", "run"], ["single", "run", "second"], ["run", "step", "run"]]))
        sched.append(seq)
    prog["sched"] = sched
    return prog


def corpus():
    return [
        {"first": ["LDA", 3], "len": 5, "words": {"1": 0x9000, "2": 0x0003, "3": 0x1FFE, "4": 0x0FFD, "4094": 3, "4095": 4}, "accu": 0,
         "sched": [["first", "first", "step", "second", "second", "single", "step", "single", "step", "step", "step", "step", "second", "first", "single"],
                   ["step", "step", "step", "step", "step", "step", "second"]]},
    ]


def shards(tier, seed):
    n, k = (150, 4) if tier == "quick" else (1500, 16)
    length, parts = (4, 4) if tier == "quick" else (7, 32)
    return ([{"n": n, "seed": seed * 1000 + i} for i in range(k)] + [{"what": "empty"}, {"what": "loops"}]
            + [{"what": "exh", "length": length, "part": i, "parts": parts} for i in range(parts)])


def empty_cases():
    calls = ["step", "first", "second", "single", "run"]
    for t in range(len(EMPTY_TEXTS)):
        yield {"kind": "empty", "text": t, "sched": [[c] for c in calls] + [[a, b] for a in calls for b in calls]}


def loop_sched_cases():
    """Programs whose control flow returns to where it is (taken BRZ onto itself, two-instruction loops) under fixed
    schedules: whole steps in a row, single cycles in a row, mixtures."""
    for c in c06.loop_cases():
        if c["drive"] != "step":
            continue
        c = {k: v for k, v in c.items() if k != "drive"}
        yield dict(c, via_text=False, sched=[["step"] * 6, ["single"] * 9, ["step", "first", "second", "step", "step", "single", "single", "step"],
                                             ["first", "second", "first", "second", "step", "step"]])


TINY_PROGRAMS = [
    {"first": ["INC", None], "len": 1, "accu": 0xFFFF, "words": {}},
    {"first": ["LDA", 3], "len": 3, "accu": 0, "words": {"1": 0x0002, "2": 0xC000, "3": 0x9000}},          # writes INC over the NOP at 2, then executes it
    {"first": ["BRZ", 0], "len": 2, "accu": 0, "words": {"1": 0xC000}},                                      # never stops (run() is not tried)
    {"first": ["ZRO", None], "len": 4, "accu": 7, "words": {"1": 0x2003, "2": 0x9000, "3": 0xA000}},         # taken branch over an instruction
    {"first": ["DEC", None], "len": 2, "accu": 0, "words": {"1": 0xF123}},                                   # opcode 15 = NOP
    {"first": ["STO", 0], "len": 2, "accu": 0xC000, "words": {"1": 0x3000}},                                 # overwrites itself, then ADD 0
    {"first": ["NOP", None], "len": 3, "accu": 1, "words": {}, "via_text": True},
]
ALL_CALLS = ["step", "first", "second", "single", "run"]


def exhaustive_sched_cases(length, part, parts):
    """ALL call sequences of exactly `length` calls over the five stepping entry points (every shorter sequence is a prefix
    and judged on the way) on each tiny program; one case = the 25 sequences sharing all but the last two calls."""
    import itertools
    k = 0
    for pi, prog in enumerate(TINY_PROGRAMS):
        for prefix in itertools.product(ALL_CALLS, repeat=length - 2):
            k += 1
            if k % parts != part:
                continue
            yield dict(prog, via_text=prog.get("via_text", False), kind="exh", prog=pi,
                       sched=[list(prefix) + [a, b] for a in ALL_CALLS for b in ALL_CALLS])


def run_shard(item, stats):
    if item.get("what") == "exh":
        core.run_cases(exhaustive_sched_cases(item["length"], item["part"], item["parts"]), check, stats,
                       core.known_matcher(ID, globals().get("known_match")), distinct=True)
        stats.exhaustive_parts.append(f"all call sequences of length <= {item['length']} over step/first_cycle_step/second_cycle_step/single_step/run "
                                      f"on {len(TINY_PROGRAMS)} tiny programs (self-modifying, taken branch, endless loop, opcode 15, one-instruction)")
        return
    if item.get("what") == "loops":
        return core.run_cases(loop_sched_cases(), check, stats, core.known_matcher(ID, globals().get("known_match")))
    if item.get("what") == "empty":
        return core.run_cases(empty_cases(), check, stats, core.known_matcher(ID, globals().get("known_match")))
    core.hyp_search(case_strategy(), check, stats, item["n"], item["seed"], core.known_matcher(ID, globals().get("known_match")))
