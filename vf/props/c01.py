"""C01 — single-cycle RV32IM execution matches the ISA reference (vf.ref.rv32), in lock-step.

case kinds
  {"kind": "single", "ins": [...], "pc": int, "regs": {r: v}, "mem": {word addr: v}}      one instruction at pc
  {"kind": "prog",   "prog": [[...], ...], "regs": {...}, "mem": {...}, "max": steps}    program from address 0
"""
from __future__ import annotations

import itertools

from hypothesis import strategies as st

from vf import core, rvdrive
from vf.core import Violation
from vf.gen import rvprog
from vf.ref import rv32

ID = "C01"
LEVEL = "exploration"
TECHNIQUE = "property-based differential testing against an independent RV32IM interpreter, plus a deterministic boundary-value product per mnemonic"
RULE = ("(a) one instruction of each of the 46 supported mnemonics (round-robin) with generated rd/rs1/rs2 (aliasing-"
        "biased), immediate over the encodable range, register values from boundary set+uniform, placed at a drawn pc, "
        "memory preset around the effective address; (b) deterministic boundary product per mnemonic; (c) generated "
        "programs (templates: loops, call/return, print/exit ecalls, load-use, store-load) with unaligned and faulting "
        "accesses, lock-step up to a step bound. Oracle after every step(): 32 registers, pc mod 2^32, exit code, "
        "output delta (parse-back), stored bytes, done-ness, fault address. non-trivial = the step writes a non-zero "
        "register / stores / transfers control / prints / exits / faults (for programs: >=3 such steps incl. one "
        "memory or control step); distinct = hash(case)"
        ' Deterministic families present under every seed: per-mnemonic boundary/aliasing product, loaded-value grid (e'
        'very boundary value of the access width at every byte offset), producer x consumer pair product; programs incl'
        'ude the same load repeated around a store through a negative (x0 - k) address; between steps the harness looks'
        ' at the byte cells without calling the read API.')
ASSUMPTIONS = [
    "CSR*, FENCE, EBREAK excluded as the property states",
    "program counter compared modulo 2^32 (a Python int outside [0,2^32) is a representation)",
    "ecall text compared by parse-back (int/float/hex/bin), characters >= 128 only by count",
    "state after a run-time fault is unspecified: a case ends at the fault",
]

B = rvprog.B
T = rvprog.T
M32 = 0xFFFFFFFF


def _mem_check(sim, ref, addrs, case, where, raw=False):
    """raw: look at the byte cells themselves instead of calling the read API - between the steps of a program the
    harness must not perform data-memory reads of its own (they would hide state kept between two program reads)."""
    cells = rvdrive.flat_memory(sim).memory_file if raw else None
    for a in addrs:
        a &= M32
        if ref.mem.classify(a, 1) != "ok":
            continue
        got = int(cells.get(a, 0)) if raw else int(sim.state.memory.read_byte(a))
        exp = ref.mem.read(a, 1)
        if got != exp:
            raise Violation("memory-byte", case, f"{where}: byte {a:#x} = {got:#x}, reference {exp:#x}")


def lockstep(case, sim, ref, max_steps, stats_tags):
    """Run sim and ref in lock-step, comparing after every step. Returns number of non-trivial steps, flags."""
    from architecture_simulator.simulation.runtime_errors import InstructionExecutionException
    nontriv = 0
    memctl = False
    n = 0
    havoc = set()   # bytes of a store that is only partly inside valid memory: unspecified
    while True:
        d_impl, d_ref = bool(sim.is_done()), ref.done()
        if d_impl != d_ref:
            raise Violation("done-ness", case, f"after {n} steps is_done()={d_impl}, reference done={d_ref} (pc={ref.pc:#x})")
        if d_ref or n >= max_steps:
            break
        before_regs = rvdrive.regs_of(sim)
        before_out = sim.state.output
        pc = ref.pc
        e = ref.step()
        n += 1
        op = e.ins[0]
        stats_tags.add("op:" + op)
        try:
            sim.step()
            raised = None
        except InstructionExecutionException as ex:
            raised = ex
        except Exception as ex:
            raise Violation("step-raises-other", case, f"step {n} {e.ins} at {pc:#x}: {type(ex).__name__}: {ex}")
        if e.fault is not None:
            stats_tags.add("fault")
            nontriv += 1
            if raised is None:
                raise Violation("fault-not-reported", case, f"step {n} {e.ins} at {pc:#x}: reference faults ({e.fault})")
            if raised.address != pc:
                raise Violation("fault-address", case, f"step {n}: exception address {raised.address} != pc {pc}")
            if rvdrive.regs_of(sim) != before_regs or sim.state.output != before_out:
                raise Violation("fault-changes-state", case, f"step {n} {e.ins}: registers/output changed by a faulting instruction")
            if e.store is not None and ref.mem.classify(e.store[0], e.store[1]) == "partial":
                havoc |= set(ref.mem.cells_of(e.store[0], e.store[1]))
                stats_tags.add("partly-invalid-store")
            break
        if raised is not None:
            raise Violation("spurious-fault", case, f"step {n} {e.ins} at {pc:#x}: {raised!r}")
        regs = rvdrive.regs_of(sim)
        if regs != ref.regs:
            bad = [(i, hex(regs[i]), hex(ref.regs[i])) for i in range(32) if regs[i] != ref.regs[i]]
            raise Violation("registers:" + op, case, f"step {n} {e.ins} at {pc:#x}: (reg, impl, ref) {bad}")
        if sim.state.program_counter % T != ref.pc:
            raise Violation("pc:" + op, case, f"step {n} {e.ins} at {pc:#x}: pc {sim.state.program_counter:#x} != {ref.pc:#x}")
        delta = sim.state.output[len(before_out):] if sim.state.output.startswith(before_out) else None
        if e.out is not None:
            stats_tags.add("ecall-print:" + e.out[0])
            if delta is None or not rv32.out_matches(e.out, delta):
                raise Violation("output:" + e.out[0], case, f"step {n} ecall {e.out}: printed {delta!r}")
        elif delta != "":
            raise Violation("output-spurious", case, f"step {n} {e.ins}: output grew by {delta!r}")
        exp_exit = ref.exit
        got_exit = sim.state.exit_code
        if (got_exit is None) != (exp_exit is None) or (exp_exit is not None and got_exit % T != exp_exit):
            raise Violation("exit-code", case, f"step {n} {e.ins}: exit_code {got_exit!r}, reference {exp_exit!r}")
        if e.store is not None:
            a, w, _ = e.store
            _mem_check(sim, ref, range(a - 2, a + w + 2), case, f"step {n} {e.ins}", raw=True)
            stats_tags.add("store")
        if e.load is not None:
            stats_tags.add("load")
        interesting = bool(e.rd and e.rd_val) or e.store is not None or e.redirect or e.out is not None or e.exit is not None
        nontriv += int(interesting)
        memctl = memctl or e.store is not None or e.load is not None or e.redirect
        if e.redirect:
            stats_tags.add("redirect")
    return nontriv, memctl, n, havoc


def check(case, stats):
    tags = set()
    if case["kind"] == "single":
        sim = rvdrive.new_sim("single")
        prog = {case["pc"]: case["ins"]}
        rvdrive.load(sim, prog, case["regs"], case["mem"], case["pc"])
        ref = rvdrive.ref_machine(prog, case["regs"], case["mem"], case["pc"])
        nontriv, _, n, havoc = lockstep(case, sim, ref, 1, tags)
        # whole backing store equals the reference store (nothing else was written)
        _final_mem(sim, ref, case, havoc)
        stats.count(case, nontriv >= 1, tags, sample_tag="single:" + case["ins"][0])
    else:
        sim = rvdrive.new_sim("single")
        rvdrive.load(sim, case["prog"], case["regs"], case["mem"])
        ref = rvdrive.ref_machine(case["prog"], case["regs"], case["mem"])
        nontriv, memctl, n, havoc = lockstep(case, sim, ref, case.get("max", 300), tags)
        _final_mem(sim, ref, case, havoc)
        tags.add("prog-steps:%s" % ("0" if n == 0 else "1-9" if n < 10 else "10-99" if n < 100 else "100+"))
        stats.count(case, nontriv >= 3 and memctl, tags, sample_tag="prog")


def _final_mem(sim, ref, case, havoc=()):
    got = rvdrive.backing_bytes(sim)
    exp = ref.mem.cells
    for a in (set(got) | set(exp)) - set(havoc):
        if got.get(a, 0) != exp.get(a, 0):
            raise Violation("final-memory", case, f"byte {a:#x}: {got.get(a, 0):#x}, reference {exp.get(a, 0):#x}")


# ------------------------------------------------------------------------------------------------------------
# generators
# ------------------------------------------------------------------------------------------------------------
def single_case(op):
    @st.composite
    def one(draw):
        ins = draw(rvprog.instruction([op]))
        pc = draw(st.one_of(st.just(0), st.sampled_from([4, 8, 0x100, B - 4, B - 8, 0x2000]),
                            st.integers(0, B // 4 - 1).map(lambda k: 4 * k)))
        regs = {}
        srcs = set(rv32.sources(ins)) | ({10, 17} if op == "ecall" else set())
        for r in srcs:
            if r:
                regs[str(r)] = draw(rvprog.val32)
        if op == "ecall":
            regs["17"] = draw(st.one_of(st.sampled_from(rvprog.ECALL_CODES), rvprog.val32))
        d = rv32.dest(ins)
        if d and draw(st.booleans()):
            regs.setdefault(str(d), draw(rvprog.val32))
        if (op in rv32.LOAD_OPS or op in rv32.STORE_OPS) and draw(st.integers(0, 3)):
            # make the effective address land near valid memory most of the time
            base_reg = ins[2] if op in rv32.LOAD_OPS else ins[1]
            if base_reg:
                tgt = draw(st.sampled_from([B, B + 1, B + 2, B + 3, B + 64, T - 4, T - 3, T - 2, T - 1, T - 8, B - 1, B - 2, B - 4]))
                regs[str(base_reg)] = (tgt - rv32.sx(ins[3], 12)) & M32
                if op in rv32.STORE_OPS and ins[2] and ins[2] != base_reg:
                    regs[str(ins[2])] = draw(rvprog.val32)
        mem = {}
        ea = None
        if op in rv32.LOAD_OPS:
            ea = (regs.get(str(ins[2]), 0) + rv32.sx(ins[3], 12)) & M32
        elif op in rv32.STORE_OPS:
            ea = (regs.get(str(ins[1]), 0) + rv32.sx(ins[3], 12)) & M32
        elif op == "ecall" and regs.get("17") == 4:
            ea = regs.get("10", 0)
        if ea is not None:
            w0 = ea & ~3
            for k in (-4, 0, 4):
                a = (w0 + k) & M32
                if B <= a <= T - 4 and draw(st.booleans()):
                    mem[str(a)] = draw(st.one_of(rvprog.val32, st.sampled_from([0x00434241, 0x80FF7F01, 0x44434241, 0x818283FF, 0x41804241])))
        return {"kind": "single", "ins": ins, "pc": pc, "regs": regs, "mem": mem}

    return one()


def prog_case(max_len, max_steps):
    return rvprog.program_case(max_len).map(lambda c: dict(c, kind="prog", max=max_steps))


BV = [0, 1, 2, M32, M32 - 1, 0x80000000, 0x7FFFFFFF, 0x80000001, 31, 32, 33, 0x7FF, 0x800, 0xFFFFF800, 0xFFFF,
      0x10000, B, 0x55555555, 3, 0xFFFFFFFD]
IB = [0, 1, -1, 2047, -2048, 31, 32, 5, -5, 0x7FE, -0x7FF, 1024]
ADDR_B = [B, B + 1, B + 2, B + 3, T - 4, T - 3, T - 2, T - 1, B - 1, B - 2, B - 4, 0, T - 8, B + 7]
IMM_A = [0, 1, -1, 3, 4, -4, 2047, -2048]


def boundary_cases(op):
    """Deterministic boundary product for one mnemonic (present under every seed)."""
    out = []
    memw = {str(a): v for a, v in [(B, 0x80FF7F01), (B + 4, 0x00434241), (B + 8, 0x8000FFFE), (B + 12, 0x7FFF8001), (T - 4, 0x818283FF), (T - 8, 0x7F80FF00)]}
    if op in rv32.R_OPS:
        for a, b in itertools.product(BV, BV):
            out.append({"kind": "single", "ins": [op, 3, 1, 2], "pc": 0, "regs": {"1": a, "2": b}, "mem": {}})
        for a in BV:  # aliasing patterns
            out.append({"kind": "single", "ins": [op, 1, 1, 1], "pc": 4, "regs": {"1": a}, "mem": {}})
            out.append({"kind": "single", "ins": [op, 0, 1, 1], "pc": 4, "regs": {"1": a}, "mem": {}})
            out.append({"kind": "single", "ins": [op, 2, 0, 2], "pc": 4, "regs": {"2": a}, "mem": {}})
    elif op in rv32.I_OPS:
        for a, i in itertools.product(BV, IB):
            out.append({"kind": "single", "ins": [op, 3, 1, i], "pc": 0, "regs": {"1": a}, "mem": {}})
            out.append({"kind": "single", "ins": [op, 1, 1, i], "pc": 8, "regs": {"1": a}, "mem": {}})
    elif op in rv32.SH_OPS:
        for a, s in itertools.product(BV, [0, 1, 2, 15, 16, 30, 31]):
            out.append({"kind": "single", "ins": [op, 3, 1, s], "pc": 0, "regs": {"1": a}, "mem": {}})
    elif op in rv32.LOAD_OPS:
        for a, i in itertools.product(ADDR_B, IMM_A):
            base = (a - i) & M32
            out.append({"kind": "single", "ins": [op, 3, 1, i], "pc": 0, "regs": {"1": base}, "mem": memw})
            out.append({"kind": "single", "ins": [op, 1, 1, i], "pc": 0, "regs": {"1": base}, "mem": memw})
        # loaded-VALUE grid: every boundary value of the access width at every byte offset, neighbours all-zero / all-one
        w = rv32.LOAD_W[op]
        vals = {1: [0, 1, 0x7F, 0x80, 0x81, 0xFE, 0xFF],
                2: [0, 1, 0x7F, 0x80, 0xFF, 0x100, 0x7FFF, 0x8000, 0x8001, 0xFF00, 0xFFFE, 0xFFFF],
                4: [0, 1, 0x80, 0xFFFF, 0x8000, 0x10000, 0x7FFFFFFF, 0x80000000, 0x80000001, 0xFFFF0000, 0xFFFFFFFE, 0xFFFFFFFF]}[w]
        for off, v, fill in itertools.product(range(4), vals, [0, 0xFF]):
            cells = {B + 4 + off + k: (v >> (8 * k)) & 0xFF for k in range(w)}
            words = {}
            for wa in (B, B + 4, B + 8):
                words[str(wa)] = sum((cells.get(wa + k, fill)) << (8 * k) for k in range(4))
            out.append({"kind": "single", "ins": [op, 3, 1, off - 4], "pc": 0, "regs": {"1": B + 8}, "mem": words})
    elif op in rv32.STORE_OPS:
        for a, i, v in itertools.product(ADDR_B, IMM_A, [0x11223344, 0xFFFFFF80]):
            base = (a - i) & M32
            out.append({"kind": "single", "ins": [op, 1, 2, i], "pc": 0, "regs": {"1": base, "2": v}, "mem": memw})
        for a in ADDR_B:
            out.append({"kind": "single", "ins": [op, 1, 1, 0], "pc": 0, "regs": {"1": a}, "mem": memw})
    elif op in rv32.BRANCH_OPS:
        for a, b, i in itertools.product(BV[:12], BV[:12], [8, -8, 0, 2, 4094, -4096]):
            out.append({"kind": "single", "ins": [op, 1, 2, i], "pc": 0x40, "regs": {"1": a, "2": b}, "mem": {}})
        out.append({"kind": "single", "ins": [op, 1, 1, 8], "pc": 0, "regs": {"1": 5}, "mem": {}})
        out.append({"kind": "single", "ins": [op, 0, 0, -8], "pc": 0, "regs": {}, "mem": {}})
    elif op in rv32.U_OPS:
        for i, pc in itertools.product([0, 1, -1, 0x7FFFF, -0x80000, 4, 0x12345], [0, 4, B - 4]):
            out.append({"kind": "single", "ins": [op, 3, i], "pc": pc, "regs": {"3": 7}, "mem": {}})
            out.append({"kind": "single", "ins": [op, 0, i], "pc": pc, "regs": {}, "mem": {}})
    elif op == "jal":
        for i, pc, rd in itertools.product([0, 4, -4, 8, 2, -2, (1 << 20) - 2, -(1 << 20), 4096], [0, 8, B - 4], [0, 1]):
            out.append({"kind": "single", "ins": [op, rd, i], "pc": pc, "regs": {"1": 9}, "mem": {}})
    elif op == "jalr":
        for a, i, rd in itertools.product(BV + [4, 8, 9, 0xFFFFFFFC, 0xFFFFFFFB], [0, 1, -1, 4, 8, -4, 2047, -2048], [0, 1, 2]):
            out.append({"kind": "single", "ins": [op, rd, 1, i], "pc": 8, "regs": {"1": a}, "mem": {}})
    elif op == "ecall":
        strmem = {str(B): 0x6C6C6548, str(B + 4): 0x0000006F, str(B + 8): 0x00428041, str(T - 4): 0x41424344}
        for code in [1, 2, 4, 11, 34, 35, 36, 10, 93, 0, 3, 5, 9, 12, 37, 92, 94, M32]:
            for a0 in BV + [65, 10, 127, 128, 255, 0x3F800000, 0x7FC00000, 0xFF800000, 0x7F800000, 0x80000000, B, B + 2, B + 4, B + 8, B + 9, T - 4, T - 1, B - 1]:
                out.append({"kind": "single", "ins": [op], "pc": 0, "regs": {"17": code, "10": a0}, "mem": strmem})
    # every rd/rs1/rs2 aliasing pattern over {x0, x1, x2} (deterministic)
    R3 = [0, 1, 2]
    av = {"1": 0x80000001, "2": 7}
    if op in rv32.R_OPS:
        for rd, a, b in itertools.product(R3, R3, R3):
            out.append({"kind": "single", "ins": [op, rd, a, b], "pc": 0xC, "regs": av, "mem": {}})
    elif op in rv32.I_OPS or op in rv32.SH_OPS:
        for rd, a, i in itertools.product(R3, R3, [5, 31] if op in rv32.SH_OPS else [5, -5]):
            out.append({"kind": "single", "ins": [op, rd, a, i], "pc": 0xC, "regs": av, "mem": {}})
    elif op in rv32.LOAD_OPS:
        for rd, a in itertools.product(R3, R3):
            out.append({"kind": "single", "ins": [op, rd, a, 4 if a else 0], "pc": 0xC, "regs": {"1": B, "2": B + 8}, "mem": memw})
    elif op in rv32.STORE_OPS:
        for a, b in itertools.product(R3, R3):
            out.append({"kind": "single", "ins": [op, a, b, 4], "pc": 0xC, "regs": {"1": B, "2": B + 8}, "mem": {}})
    elif op in rv32.BRANCH_OPS:
        for a, b in itertools.product(R3, R3):
            out.append({"kind": "single", "ins": [op, a, b, 8], "pc": 0xC, "regs": av, "mem": {}})
    elif op == "jalr":
        for rd, a in itertools.product(R3, R3):
            out.append({"kind": "single", "ins": [op, rd, a, 4], "pc": 0xC, "regs": {"1": 0x21, "2": 0x40}, "mem": {}})
    return out


def pair_cases():
    """Producer/consumer pair product (deterministic): every instruction with a destination produces x5 and x6 from
    boundary operands, then every consumer form reads them (rs1 = rs2 = x5, and x5 with x6).  Catches results that
    are numerically right but misbehave when consumed (representation leaks), and stale state between instructions."""
    mem = {str(B): 0xFFFFFFFF, str(B + 4): 0x8000FF7F, str(B + 8): 0x00010001}
    regs = {"1": 0xFFFFFFFF, "2": 0x7FFF8001, "3": 3, "8": B}
    producers = []
    for op in rv32.R_OPS:
        producers.append(lambda rd, op=op: [op, rd, 1, 2])
    for op in rv32.I_OPS:
        producers.append(lambda rd, op=op: [op, rd, 1, -1])
    for op in rv32.SH_OPS:
        producers.append(lambda rd, op=op: [op, rd, 2, 1])
    for op in rv32.LOAD_OPS:
        producers.append(lambda rd, op=op: [op, rd, 8, 0])
        producers.append(lambda rd, op=op: [op, rd, 8, 4])
    producers += [lambda rd: ["lui", rd, -1], lambda rd: ["auipc", rd, 0x7FFFF]]
    consumers = [[op, 9, 5, 5] for op in rv32.R_OPS] + [[op, 9, 5, 6] for op in rv32.R_OPS] + [[op, 9, 5, 5] for op in rv32.I_OPS] \
        + [[op, 9, 5, 31] for op in rv32.SH_OPS] + [[op, 8, 5, 16] for op in rv32.STORE_OPS] \
        + [[op, 5, 6, 8] for op in rv32.BRANCH_OPS] + [[op, 5, 5, 8] for op in rv32.BRANCH_OPS]
    for p in producers:
        for c in consumers:
            yield {"kind": "prog", "prog": [p(5), p(6), c, ["add", 10, 9, 5]], "regs": regs, "mem": mem, "max": 10}


def corpus():
    return [
        {"kind": "single", "ins": ["jalr", 1, 1, 5], "pc": 8, "regs": {"1": 0xFFFFFFFC}, "mem": {}},
        {"kind": "single", "ins": ["div", 3, 1, 2], "pc": 0, "regs": {"1": 0x80000000, "2": M32}, "mem": {}},
        {"kind": "single", "ins": ["lh", 2, 2, -1], "pc": 0, "regs": {"2": B + 3}, "mem": {str(B): 0x8000FFFF}},
        {"kind": "prog", "prog": [["addi", 17, 0, 1], ["addi", 10, 0, -7], ["ecall"], ["addi", 17, 0, 93], ["ecall"],
                                  ["addi", 1, 0, 1]], "regs": {}, "mem": {}, "max": 50},
        {"kind": "prog", "prog": [["sw", 8, 1, -2], ["lw", 2, 8, -2], ["sb", 8, 1, -1]], "regs": {"8": B + 2, "1": 0xA1B2C3D4},
         "mem": {}, "max": 50},
    ]


def shards(tier, seed):
    items = []
    if tier == "quick":
        for i in range(4):
            items.append({"what": "boundary", "ops": rv32.ALL_OPS[i::4]})
        items.append({"what": "pairs"})
        for i in range(4):
            items.append({"what": "single", "ops": rv32.ALL_OPS[i::4], "n": 45, "seed": seed * 1000 + i})
        for i in range(4):
            items.append({"what": "prog", "n": 150, "len": 12, "max": 200, "seed": seed * 1000 + 100 + i})
    else:
        for i in range(16):
            items.append({"what": "boundary", "ops": rv32.ALL_OPS[i::16]})
        items.append({"what": "pairs"})
        for i in range(46):
            items.append({"what": "single", "ops": [rv32.ALL_OPS[i]], "n": 6000, "seed": seed * 1000 + i})
        for i in range(32):
            items.append({"what": "prog", "n": 900, "len": 16 if i % 2 else 30, "max": 400, "seed": seed * 1000 + 100 + i})
    return items


def run_shard(item, stats):
    km = core.known_matcher(ID, globals().get("known_match"))
    if item["what"] == "boundary":
        for op in item["ops"]:
            core.run_cases(boundary_cases(op), check, stats, km)
        stats.exhaustive_parts.append("boundary product per mnemonic (deterministic)")
    elif item["what"] == "pairs":
        core.run_cases(pair_cases(), check, stats, km)
        stats.exhaustive_parts.append("producer x consumer instruction pair product (deterministic)")
    elif item["what"] == "single":
        for j, op in enumerate(item["ops"]):
            core.hyp_search(single_case(op), check, stats, item["n"], item["seed"] * 50 + j, km)
    else:
        core.hyp_search(prog_case(item["len"], item["max"]), check, stats, item["n"], item["seed"], km)
