"""C16 — inspection is pure: calling the read-only inspection functions between steps never changes any later
result.  Twin runs (with / without inspection calls); after every step the full snapshot and the result of every
inspection function must be identical in both.

case = {"sim": {"kind": "single"|"five"|"toy", "dcache", "icache"}, program fields..., "sched": [[name idx, ...] per step], "max": steps}
"""
from __future__ import annotations

import copy

from hypothesis import strategies as st

from vf import core, rvdrive, snap, toydrive
from vf.core import Violation
from vf.gen import cachecfg, rvprog
from vf.props import c06

ID = "C16"
LEVEL = "exploration"
TECHNIQUE = "metamorphic property testing with twin simulations: generated interleavings of inspection calls between steps vs. an uninspected twin, compared after every step on the full snapshot and on every inspection result"
RULE = ("programs x cache configurations (data and instruction cache) x modes, and TOY programs; before every step a generated "
        "multiset (0-3 repetitions each) of the inspection functions (register / data-memory / instruction / cache tables, "
        "cache statistics, SVG update lists, metrics text, output, exit code, is_done, has_instructions; TOY: register "
        "representations, memory table, SVG values, metrics text) is called on one twin only; after every step the full "
        "state snapshot and the result of EVERY inspection function must be equal in both twins (observed on deep copies, "
        "so the uninspected twin really sees no inspection call). non-trivial = the inspected run had >= 1 data-cache eviction, or >= 5 inspection calls "
        "between two steps; distinct = hash(case)"
        ' Around every group of inspection calls a fingerprint of all plain-data class attributes / module globals of t'
        'he package must be unchanged (state shared by all simulations cannot be seen by twins).')
ASSUMPTIONS = [
    "execution-time lines of the metrics text are wall-clock dependent and removed before comparison",
    "observation for the comparison is done on deep copies, so neither twin is perturbed by the comparison itself",
]


def _mk(case):
    cfg = case["sim"]
    if cfg["kind"] == "toy":
        sim, _ = toydrive.build(case)
        return sim
    sim = rvdrive.new_sim(cfg["kind"], True, cfg.get("dcache"), cfg.get("icache"))
    rvdrive.load(sim, case["prog"], case.get("regs"), case.get("mem"))
    return sim


def check(case, stats):
    from architecture_simulator.simulation.runtime_errors import InstructionExecutionException
    cfg = case["sim"]
    toy = cfg["kind"] == "toy"
    names = snap.TOY_INSPECT if toy else snap.RV_INSPECT
    call = snap.toy_call if toy else snap.rv_call
    snapshot = snap.toy_snapshot if toy else snap.rv_snapshot
    a, b = _mk(case), _mk(case)           # a is inspected, b is not
    sched = case["sched"]
    n = 0
    max_between = 0

    def observe(sim):
        """Snapshot + every inspection result, taken on a deep copy so that `sim` itself is not touched."""
        c = copy.deepcopy(sim)
        g0 = snap.global_fingerprint()
        out = {"snapshot": snapshot(c)}
        for nm in names:
            out[nm] = call(c, nm)
        g1 = snap.global_fingerprint()
        if g1 != g0:
            # data shared by all simulations of the process (class attributes, module globals) belongs to "later results":
            # twins cannot see such a change (both are affected), the fingerprint around the queries can
            raise Violation("inspection-changed-shared-state", case, f"after {n} steps, calling the inspection functions on a copy changed "
                            f"process-wide data: {snap.fingerprint_diff(g0, g1)[:4]}")
        return out

    ob = observe(b)
    while n < case.get("max", 120):
        calls = sched[n % len(sched)] if sched else []
        max_between = max(max_between, len(calls))
        g0 = snap.global_fingerprint() if calls else None
        for idx in calls:
            try:
                call(a, names[idx % len(names)])
            except Exception as ex:
                raise Violation("inspection-raises", case, f"{names[idx % len(names)]} before step {n + 1}: {type(ex).__name__}: {ex}")
        called = [names[i % len(names)] for i in calls]
        if calls:
            # state shared by all simulations of the process (class attributes, module globals) is part of "later results"
            g1 = snap.global_fingerprint()
            if g1 != g0:
                raise Violation("inspection-changed-shared-state", case, f"before step {n + 1}, calling {called} changed process-wide data: {snap.fingerprint_diff(g0, g1)[:4]}")
        if calls:
            # the inspected twin must still look exactly like the untouched one (state and every inspection result)
            oa = observe(a)
            if oa != ob:
                bad = [k for k in oa if oa[k] != ob[k]]
                what = snap.diff_keys(oa["snapshot"], ob["snapshot"]) if "snapshot" in bad else bad
                raise Violation("changed-by-inspection", case, f"before step {n + 1}, after calling {called}: differs from the uninspected twin in {what}")
        if ob["snapshot"]["done"]:
            break
        ea = eb = None
        half = toy and case.get("toy_half")          # TOY: every half-cycle is a step the user can inspect after
        try:
            ra = a.single_step() if half else a.step()
        except InstructionExecutionException as ex:
            ea = ex
        try:
            rb = b.single_step() if half else b.step()
        except InstructionExecutionException as ex:
            eb = ex
        n += 1
        if (ea is None) != (eb is None) or (ea is not None and ea.address != eb.address):
            raise Violation("fault-differs", case, f"step {n}: inspected twin {ea!r}, other {eb!r}")
        if ea is not None:
            break
        if ra != rb:
            raise Violation("step-return-differs", case, f"step {n}: {ra!r} vs {rb!r}")
        oa, ob = observe(a), observe(b)
        if oa["snapshot"] != ob["snapshot"]:
            raise Violation("state-differs", case, f"after step {n}: inspected twin differs in {snap.diff_keys(oa['snapshot'], ob['snapshot'])} "
                            f"(inspections before this step: {called})")
        for nm in names:
            if oa[nm] != ob[nm]:
                raise Violation("inspection-result-differs:" + nm, case, f"after step {n}: {nm}() differs between the twins "
                                f"(inspections before this step: {called})")
    tags = {"kind:" + cfg["kind"]}
    evicted = False
    if not toy and cfg.get("dcache"):
        d = copy.deepcopy(a).state.memory.get_cache_stats()
        cap = (1 << cfg["dcache"]["idx"]) * cfg["dcache"]["ways"]
        evicted = int(d["accesses"]) - int(d["hits"]) > cap
        tags.add("dcache")
        if evicted:
            tags.add("dcache-eviction")
    if not toy and cfg.get("icache"):
        tags.add("icache")
    if max_between >= 5:
        tags.add(">=5-inspections-between-steps")
    stats.count(case, evicted or max_between >= 5, tags, sample_tag=cfg["kind"])


@st.composite
def case_strategy(draw):
    kind = draw(st.sampled_from(["single", "five", "five", "toy"]))
    sched = draw(st.lists(st.lists(st.integers(0, 12), max_size=8), min_size=1, max_size=6))
    if kind == "toy":
        c = draw(c06.program_case())
        c["via_text"] = False
        half = draw(st.booleans())
        return dict(c, sim={"kind": "toy"}, sched=sched, max=120 if half else 60, toy_half=half)
    multiway = st.builds(lambda c, w: dict(c, ways=w), cachecfg.cache_config(max_idx=1, max_blk=1, max_ways=2), st.sampled_from([2, 4]))
    dc = draw(cachecfg.maybe(st.one_of(cachecfg.small_cache_config(), multiway, multiway, cachecfg.cache_config())))
    ic = draw(cachecfg.maybe(cachecfg.small_cache_config()))
    prog = draw(rvprog.mem_heavy_case(16) if dc else st.one_of(rvprog.program_case(12), rvprog.mem_heavy_case(14)))
    if kind == "single" and draw(st.booleans()):
        # single-cycle mode also executes CSR instructions (not visualised): sprinkle a few in
        prog = dict(prog, prog=list(prog["prog"]))
        for _ in range(draw(st.integers(1, 3))):
            op = draw(st.sampled_from(["csrrw", "csrrs", "csrrc", "csrrwi", "csrrsi", "csrrci"]))
            csr = draw(st.sampled_from([0x000, 0x001, 0x040, 0x0FF, 0x100, 0x300, 0x340, 0xC00, 0xFFF, 0x7FF]))
            third = draw(st.integers(0, 31))
            prog["prog"].insert(draw(st.integers(0, len(prog["prog"]))), [op, draw(st.sampled_from([0, 1, 2, 5])), csr, third])
    return dict(prog, sim={"kind": kind, "dcache": dc, "icache": ic}, sched=sched, max=120)


def corpus():
    B = rvprog.B
    return [
        {"sim": {"kind": "five", "dcache": {"idx": 0, "blk": 0, "ways": 2, "type": "wb", "repl": "lru", "pen": 1}, "icache": {"idx": 0, "blk": 0, "ways": 2, "type": "wb", "repl": "plru", "pen": 1}},
         "prog": [["sw", 8, 1, 0], ["sw", 8, 1, 4], ["lw", 2, 8, 0], ["sw", 8, 2, 8], ["lw", 3, 8, 4], ["lw", 3, 8, 0], ["beq", 0, 0, -24]],
         "regs": {"8": B, "1": 7}, "mem": {}, "sched": [[0, 1, 2, 3, 4, 5, 6, 7, 8, 9, 10, 11, 12], [1, 1, 1], [3, 5, 4, 6]], "max": 60},
        dict(c06.corpus()[0], sim={"kind": "toy"}, sched=[[0, 1, 2, 3, 4, 5], [1, 1]], max=30),
        dict(c06.corpus()[0], sim={"kind": "toy"}, sched=[[1], [1, 2], [0]], max=40, toy_half=True),
        {"sim": {"kind": "single", "dcache": None, "icache": None}, "prog": [["addi", 1, 0, 5], ["csrrw", 2, 0, 1], ["addi", 3, 0, 1], ["csrrs", 2, 0, 0]],
         "regs": {}, "mem": {}, "sched": [[7], [7, 7], [7]], "max": 20},
    ]


def shards(tier, seed):
    n, k = (160, 4) if tier == "quick" else (750, 16)
    return [{"n": n, "seed": seed * 1000 + i} for i in range(k)]


def run_shard(item, stats):
    core.hyp_search(case_strategy(), check, stats, item["n"], item["seed"], core.known_matcher(ID, globals().get("known_match")))
