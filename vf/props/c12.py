"""C12 — write-through keeps backing memory (and every resident block) current; write-back lets backing memory
lag only for resident blocks and never loses a written value on eviction.  State invariant after every operation.

case = a cache history (vf.cachehist), judged on L (logical contents), B (backing Memory), R (cache_repr()).
"""
from __future__ import annotations

from vf import cachehist, core

ID = "C12"
LEVEL = "exploration"
TECHNIQUE = "model-based property testing: state invariant over (logical store, backing memory, resident blocks) after every operation of generated and exhaustively enumerated access histories"
RULE = ("histories and configurations of C03 (Hypothesis histories incl. rejected accesses; ALL sequences up to the stated "
        "length over the 13-operation tiny alphabet on 8 tiny geometries). After every operation: WT: backing == logical on "
        "every pool word and every valid resident block == its backing block, memory table current; WB: every pool word is "
        "either resident with the logical value or its backing word equals the logical value (eviction never loses a write); "
        "the memory table always shows the backing store. non-trivial = >=1 eviction of a block that was written (WB) / a "
        "write hit followed by a read (WT); distinct = hash(history)"
        ' Histories contain reset() of the memory system in mid-history.')
ASSUMPTIONS = ["resident blocks are read from the public cache_repr(); backing memory through its read_word/wordwise_repr"]


def check(case, stats):
    return cachehist.check(case, stats, clauses=("invariant",), nontrivial="c12")


def corpus():
    return list(cachehist.corpus())


def shards(tier, seed):
    items = []
    if tier == "quick":
        for i in range(4):
            items.append({"what": "history", "n": 120, "ops": 50, "seed": seed * 1000 + i})
        for L in (1, 2, 3):
            items.append({"what": "tiny", "len": L, "part": 0, "parts": 1})
        for p in range(8):
            items.append({"what": "tiny", "len": 4, "part": p, "parts": 8, "geos": [0, 2, 5, 7]})
    else:
        for i in range(16):
            items.append({"what": "history", "n": 1500, "ops": 100, "seed": seed * 1000 + i})
        for L in (1, 2, 3, 4):
            items.append({"what": "tiny", "len": L, "part": 0, "parts": 1})
        for p in range(48):
            items.append({"what": "tiny", "len": 5, "part": p, "parts": 48})
    for i in range(2 if tier == "quick" else 8):
        items.append({"what": "machine", "n": 60 if tier == "quick" else 800, "seed": seed * 1000 + 900 + i})
    return items + [{"what": "partial"}]


def run_shard(item, stats):
    if item.get("what") == "machine":
        from vf import machines
        return machines.machine_search(machines.cache_machine(stats, ('invariant',), 'c12', False), stats, item["n"], item["seed"])
    km = core.known_matcher(ID, globals().get("known_match"))
    if item["what"] == "history":
        core.hyp_search(cachehist.history_case(max_ops=item["ops"]), check, stats, item["n"], item["seed"], km)
    elif item["what"] == "partial":
        core.run_cases(cachehist.partial_fill_cases(), check, stats, km)
    else:
        geos = [cachehist.TINY_GEOMETRIES[g] for g in item.get("geos", range(8))]
        core.run_cases(cachehist.tiny_cases(item["len"], item["part"], item["parts"], True, geos), check, stats, km, distinct=True)
        stats.exhaustive_parts.append(f"all 13^{item['len']} operation sequences of length {item['len']} on {len(geos)} tiny geometries")
