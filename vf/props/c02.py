"""C02 — five-stage pipeline with hazard detection == single-cycle mode (differential, anchored by C01).

case = {"prog": [...], "regs": {...}, "mem": {...}, "max": steps}
"""
from __future__ import annotations

import itertools

from vf import core, pipedrive, rvdrive
from vf.core import Violation
from vf.gen import rvprog
from vf.ref import rv32

ID = "C02"
LEVEL = "exploration"
TECHNIQUE = "differential property-based testing (five-stage vs single-cycle) + small-scope exhaustive enumeration over a hazard-complete instruction alphabet"
RULE = ("programs x initial states: (a) ALL sequences up to the stated length over a 14-instruction hazard-complete "
        "alphabet (exhaustive), (b) Hypothesis-generated programs (loops, call/return, ecalls, load-use, faults), (c) the per-mnemonic boundary/aliasing "
        "operand product of C01 as one-instruction programs (pipelined datapath vs behavior() of each instruction). Each is "
        "run in single-cycle mode and in five-stage mode (cap 8n+32 cycles); compared: retire order, registers at every "
        "retirement, ordered byte-level memory changes, output growth order, final registers/memory/output/exit code, "
        "instruction/branch/procedure counters, termination, fault address and state at the fault. non-trivial = the "
        "five-stage run had >=1 stall or >=1 flush or executed an ecall or faulted; distinct = hash(case)")
ASSUMPTIONS = [
    "single-cycle mode is the oracle (its own correctness is C01)",
    "programs that exceed the step bound are compared on the common prefix (retire order, registers, memory, output)",
    "bytes changed by the faulting step itself are unspecified and excluded from the memory comparison at a fault",
]
B = rvprog.B


def compare(case, s, f, V=Violation):
    """s: single-cycle trace, f: five-stage trace (hazard detection on)."""
    n = len(s.pcs)
    # (6) termination
    if f.end == "cap":
        raise V("termination", case, f"single-cycle ended ({s.end}) after {n} instructions, five-stage still running "
                f"after {f.steps} cycles (retired {len(f.pcs)})")
    m = min(len(f.pcs), n)
    # (1) retire order
    if f.pcs[:m] != s.pcs[:m]:
        k = next(i for i in range(m) if f.pcs[i] != s.pcs[i])
        raise V("retire-order", case, f"instruction #{k}: five-stage retired {f.pcs[k]:#x}, single-cycle executed {s.pcs[k]:#x}")
    if s.end == "fault":
        # the faulting instruction does not retire; everything before it does
        if f.end != "fault":
            raise V("fault-missing", case, f"single-cycle faults at {s.fault_addr:#x} after {n} instructions; five-stage ended '{f.end}' "
                    f"having retired {len(f.pcs)}")
        if f.fault_addr != s.fault_addr:
            raise V("fault-address", case, f"five-stage reports {f.fault_addr!r}, single-cycle {s.fault_addr:#x}")
        # the write-back of the instruction just ahead of the faulting one runs in the very step that raises, so
        # its retirement cannot be observed in the latch (the step is aborted); its effect is checked through the
        # register comparison below.  Hence n-1 or n observed retirements are both consistent.
        if len(f.pcs) not in (n - 1, n):
            raise V("fault-retire-count", case, f"five-stage retired {len(f.pcs)} before the fault, single-cycle executed {n}")
        if f.fault_regs != s.fault_regs:
            raise V("fault-registers", case, _regdiff(f.fault_regs, s.fault_regs))
        if f.fault_out != s.fault_out:
            raise V("fault-output", case, f"{f.fault_out!r} vs {s.fault_out!r}")
        hv = s.havoc | f.havoc
        fm = {a: v for a, v in f.final_mem.items() if a not in hv}
        sm = {a: v for a, v in s.final_mem.items() if a not in hv}
        if fm != sm:
            raise V("fault-memory", case, _memdiff(fm, sm))
        return
    if f.end == "fault":
        raise V("spurious-fault", case, f"five-stage faults at {f.fault_addr!r} ({f.fault_repr}); single-cycle ended '{s.end}'")
    if s.end == "done" and len(f.pcs) != n:
        raise V("retire-count", case, f"five-stage retired {len(f.pcs)} instructions, single-cycle executed {n}")
    # (2) registers at every retirement
    for k in range(m):
        if f.regs_after[k] != s.regs_after[k]:
            raise V("registers-at-retirement", case, f"after instruction #{k} at {s.pcs[k]:#x}: " + _regdiff(f.regs_after[k], s.regs_after[k]))
    if s.end == "done":
        # (3) ordered memory changes, (4) output growth, (5) final state and counters
        if f.mem_changes != s.mem_changes:
            raise V("memory-change-order", case, f"five-stage {f.mem_changes[:8]} vs single-cycle {s.mem_changes[:8]}")
        if f.out_growth != s.out_growth:
            raise V("output-order", case, f"{f.out_growth[:6]} vs {s.out_growth[:6]}")
        if f.final_regs != s.final_regs:
            raise V("final-registers", case, _regdiff(f.final_regs, s.final_regs))
        if f.final_mem != s.final_mem:
            raise V("final-memory", case, _memdiff(f.final_mem, s.final_mem))
        if f.final_out != s.final_out:
            raise V("final-output", case, f"{f.final_out!r} vs {s.final_out!r}")
        if f.exit_code != s.exit_code:
            raise V("exit-code", case, f"{f.exit_code!r} vs {s.exit_code!r}")
        for key in ("instructions", "branches", "procedures"):
            if f.metrics[key] != s.metrics[key]:
                raise V("counter-" + key, case, f"five-stage {f.metrics[key]} vs single-cycle {s.metrics[key]}")
    else:
        # prefix: the five-stage run may be slightly behind or ahead in memory/output; compare as prefixes
        k = min(len(f.mem_changes), len(s.mem_changes))
        # a store's bytes may be split by the cut; compare complete common prefix conservatively
        if f.mem_changes[:k] != s.mem_changes[:k]:
            raise V("memory-change-order", case, f"prefix differs: {f.mem_changes[:8]} vs {s.mem_changes[:8]}")
        k = min(len(f.out_growth), len(s.out_growth))
        if f.out_growth[:k] != s.out_growth[:k]:
            raise V("output-order", case, f"prefix differs: {f.out_growth[:6]} vs {s.out_growth[:6]}")


def _regdiff(a, b):
    return "(reg, five-stage, single-cycle) " + str([(i, hex(a[i]), hex(b[i])) for i in range(32) if a[i] != b[i]])


def _memdiff(a, b):
    ks = sorted(set(a) | set(b))
    return "(addr, five-stage, single-cycle) " + str([(hex(k), a.get(k, 0), b.get(k, 0)) for k in ks if a.get(k, 0) != b.get(k, 0)][:8])


def check(case, stats):
    mx = case.get("max", 300)
    s = pipedrive.run(case, "single", max_steps=mx)
    n = len(s.pcs)
    hook = None
    if not case.get("alpha") and not case.get("boundary"):
        # other simulation objects created later with other options (no hazard detection, single-cycle) and kept alive:
        # options and pipeline belong to the simulation object, not to the process
        keep = []

        def hook(sim):
            for mode, det in (("five", False), ("single", True)):
                d = rvdrive.new_sim(mode, det)
                rvdrive.load(d, case["prog"], case.get("regs"), case.get("mem"))
                keep.append(d)
    f = pipedrive.run(case, "five", True, max_steps=8 * (n + 1) + 32, stop_after=(n if s.end == "bound" else None), sim_hook=hook)
    compare(case, s, f)
    tags = {"end:" + s.end}
    mt = f.metrics
    had_ecall = any(case["prog"][a // 4][0] == "ecall" for a in s.pcs if a % 4 == 0 and 0 <= a // 4 < len(case["prog"]))
    if mt["stalls"]:
        tags.add("stall")
    if mt["flushes"]:
        tags.add("flush")
    if mt["stalls"] and mt["flushes"]:
        tags.add("stall+flush")
    if had_ecall:
        tags.add("ecall")
    if s.mem_changes:
        tags.add("store")
    tags.add("len:%s" % ("0" if n == 0 else "1-9" if n < 10 else "10-99" if n < 100 else "100+"))
    nontrivial = bool(mt["stalls"] or mt["flushes"] or had_ecall or s.end == "fault")
    if case.get("single"):
        # one-instruction programs: non-trivial when the instruction has an architectural effect or faults
        init = [0] * 32
        for r, v in case["regs"].items():
            if int(r):
                init[int(r)] = v & 0xFFFFFFFF
        nontrivial = bool(s.regs_after and s.regs_after[-1] != init) or bool(s.mem_changes) or s.end == "fault" or bool(s.out_growth) \
            or (mt["flushes"] > 0)
        tags.add("single-instruction:" + case["prog"][0][0])
    stats.count(case, nontrivial, tags, sample_tag=("alpha" if case.get("alpha") else "single" if case.get("single") else "prog") + ":" + s.end)


# ------------------------------------------------------------------------------------------------------------
# hazard-complete alphabet (x1..x3 + fixed base x8, a7=x17, a0=x10)
# ------------------------------------------------------------------------------------------------------------
ALPHABET = [
    ["addi", 1, 1, 1],      # producer + consumer of x1
    ["add", 2, 1, 3],       # reads rs1 and rs2
    ["sub", 3, 2, 1],
    ["lw", 1, 8, 0],        # load -> use
    ["sw", 8, 2, 0],        # store data dependency (rs2), address via untouched x8
    ["sw", 1, 3, 0],        # store address dependency (rs1 = x1), may fault
    ["addi", 0, 1, 5],      # x0 destination (never a hazard)
    ["beq", 1, 2, 8],       # forward branch, taken or not depending on state
    ["bne", 3, 0, -8],      # backward branch
    ["jal", 1, 8],          # jump + link into x1
    ["jalr", 2, 3, 0],      # indirect jump through x3
    ["ecall"],              # print (a7 = 1) or whatever a7 holds by then
    ["addi", 17, 0, 10],    # arms an exiting ecall
    ["addi", 0, 0, 0],      # independent filler
]
ALPHA_INIT = {"regs": {"1": 0, "2": 4, "3": 8, "8": B, "17": 1, "10": 7}, "mem": {str(B): 12, str(B + 4): 0}}


def alpha_case(seq):
    return {"prog": [ALPHABET[i] for i in seq], "regs": ALPHA_INIT["regs"], "mem": ALPHA_INIT["mem"], "max": 60, "alpha": 1}


def alpha_cases(length, part, parts):
    for idx, seq in enumerate(itertools.product(range(len(ALPHABET)), repeat=length)):
        if idx % parts == part:
            yield alpha_case(seq)


def prog_case(max_len, max_steps):
    return rvprog.program_case(max_len).map(lambda c: dict(c, max=max_steps))


def _as_prog(c):
    """A C01 single-instruction case as a one-instruction program at address 0 (per-instruction datapath agreement)."""
    return {"prog": [c["ins"]], "regs": c["regs"], "mem": c["mem"], "max": 4, "single": 1}


def boundary_cases(op):
    from vf.props import c01
    for c in c01.boundary_cases(op):
        yield _as_prog(c)


def single_case(op):
    from vf.props import c01
    return c01.single_case(op).map(_as_prog)


def corpus():
    return [
        alpha_case([3, 1, 4]), alpha_case([7, 11, 12, 11]), alpha_case([9, 11, 0, 8]), alpha_case([12, 3, 11, 0]),
        {"prog": [["lw", 1, 8, 0], ["add", 2, 1, 1], ["beq", 2, 2, 8], ["sw", 8, 2, 4], ["sw", 8, 2, 8], ["ecall"]],
         "regs": {"8": B, "17": 1, "10": 3}, "mem": {str(B): 21}, "max": 50},
    ]


def shards(tier, seed):
    items = []
    if tier == "quick":
        for L in (1, 2, 3):
            items.append({"what": "alpha", "len": L, "part": 0, "parts": 1})
        for p in range(4):
            items.append({"what": "alpha", "len": 4, "part": p, "parts": 4})
        for i in range(4):
            items.append({"what": "prog", "n": 300, "len": 14, "max": 200, "seed": seed * 1000 + i})
        for i in range(4):
            items.append({"what": "boundary", "ops": rv32.ALL_OPS[i::4]})
        items.append({"what": "pairs"})
    else:
        items.append({"what": "pairs"})
        for i in range(16):
            items.append({"what": "boundary", "ops": rv32.ALL_OPS[i::16]})
        for i in range(46):
            items.append({"what": "single", "ops": [rv32.ALL_OPS[i]], "n": 3000, "seed": seed * 1000 + 500 + i})
        for L in (1, 2, 3, 4):
            items.append({"what": "alpha", "len": L, "part": 0, "parts": 1})
        for p in range(32):
            items.append({"what": "alpha", "len": 5, "part": p, "parts": 32})
        for p in range(256):
            items.append({"what": "alpha", "len": 6, "part": p, "parts": 256})
        for i in range(32):
            items.append({"what": "prog", "n": 1800, "len": 14 if i % 2 else 28, "max": 400, "seed": seed * 1000 + i})
    return items


def run_shard(item, stats):
    km = core.known_matcher(ID, globals().get("known_match"))
    if item["what"] == "boundary":
        for op in item["ops"]:
            core.run_cases(boundary_cases(op), check, stats, km)
        stats.exhaustive_parts.append("per-mnemonic boundary/aliasing product as one-instruction programs (deterministic)")
        return
    if item["what"] == "pairs":
        from vf.props import c01
        core.run_cases(({"prog": c["prog"], "regs": c["regs"], "mem": c["mem"], "max": 10} for c in c01.pair_cases()), check, stats, km)
        stats.exhaustive_parts.append("producer x consumer instruction pair product (deterministic)")
        return
    if item["what"] == "single":
        for j, op in enumerate(item["ops"]):
            core.hyp_search(single_case(op), check, stats, item["n"], item["seed"] * 50 + j, km)
        return
    if item["what"] == "alpha":
        core.run_cases(alpha_cases(item["len"], item["part"], item["parts"]), check, stats, km, distinct=True)
        stats.exhaustive_parts.append(f"all {len(ALPHABET)}^{item['len']} alphabet sequences of length {item['len']}")
    else:
        core.hyp_search(prog_case(item["len"], item["max"]), check, stats, item["n"], item["seed"], km)
