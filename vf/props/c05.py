"""C05 — data segment layout, initial values, name[i] addressing, li constants.

case kinds
  {"kind": "layout", "data": [decl], "tape": [...], "data_first": bool}
  {"kind": "access", "data": [decl], "acc": [[op, var, idx, value], ...], "tape": [...], "data_first": bool}
  {"kind": "li", "consts": [c, ...], "tape": [...]}
  {"kind": "example"}
"""
from __future__ import annotations

import itertools

from hypothesis import strategies as st

from vf import core, rvdrive
from vf.core import Violation
from vf.gen import asmgen, cachecfg
from vf.ref import asm, rv32

ID = "C05"
LEVEL = "exploration"
TECHNIQUE = "grammar-based property testing of the data segment against a reference layout (byte-by-byte), executed name[i] accesses in the real simulator, enumeration of li constants over all low-12-bit patterns x boundary high parts, segment-order metamorphic relation"
RULE = ("(a) Hypothesis data segments (byte/half/word with 1-6 values incl. negative and out-of-range literals in dec/hex/bin, "
        "strings, .zero n) in either segment order: every byte of [first data address, end+8) read through state.memory "
        "must equal the reference layout (declaration order, 4-byte alignment, strides 1/2/4, little-endian, values mod "
        "width, NUL-terminated strings, n zero words), and both segment orders give the same bytes; (b) la / load / store by "
        "name[i] executed in the real single-cycle simulator: address of element i, loaded value with the instruction's "
        "extension, stored value visible; (c) li rd, c executed: rd == c mod 2^32 for the stated constant set (quick: every "
        "multiple of 0x800 +-2 for 4 high parts + random; thorough: all 4096 low-12-bit patterns x 14 high parts + random); "
        "(d) the help page's example program yields its documented register values. non-trivial = segment with >=2 "
        "variables of different types and an alignment gap, an indexed access with i >= 1, or a li whose low 12 bits >= "
        "0x800; distinct = hash(case)"
        ' Layouts are also loaded under generated data-cache configurations: counters stay 0 and the bytes read through'
        ' the cache are the layout.')
ASSUMPTIONS = [
    "strings contain printable ASCII without the double quote, backslash and # (the line grammar cannot carry those)",
    "the last comment of the help example ('!') is an off-by-one in the help text: element 11 of 'Hello, World!' is 'd'",
]
M32 = 0xFFFFFFFF


def _sim(text, case, dcache=None):
    from architecture_simulator.simulation.riscv_simulation import RiscvSimulation
    sim = RiscvSimulation(data_cache=rvdrive.cache_options(dcache)) if dcache else RiscvSimulation()
    try:
        sim.load_program(text)
    except Exception as ex:
        raise Violation("well-formed-program-rejected", case, f"{type(ex).__name__}: {ex!r}\n{text}")
    return sim


def _run(sim, case, limit=2000):
    n = 0
    try:
        while not sim.is_done() and n < limit:
            sim.step()
            n += 1
    except Exception as ex:
        raise Violation("run-time-error", case, f"{type(ex).__name__}: {ex!r}")
    if not sim.is_done():
        raise Violation("does-not-terminate", case, "straight-line program still running")


def _compare_bytes(sim, image, base, end, case, text):
    for a in range(base, end + 8):
        got = int(sim.state.memory.read_byte(a, update_statistics=False))
        exp = image.get(a, 0)
        if got != exp:
            raise Violation("layout-byte", case, f"byte {a:#x} (base+{a - base}) = {got:#04x}, reference layout {exp:#04x}\n{text}")
    extra = [a for a, v in rvdrive.backing_bytes(sim).items() if int(v) and not (base <= a < end + 8)]
    if extra:
        raise Violation("layout-stray-bytes", case, f"non-zero bytes outside the segment at {[hex(a) for a in extra[:4]]}")


def check(case, stats):
    k = case["kind"]
    if k == "layout":
        return check_layout(case, stats)
    if k == "access":
        return check_access(case, stats)
    if k == "li":
        return check_li(case, stats)
    return check_example(case, stats)


def _gap_and_mixed(data):
    types = {d["type"] for d in data}
    a = 0
    gap = False
    for d in data:
        if a % 4:
            gap = True
        a = (a + 3) & ~3
        a += len(d["string"]) + 1 if d["type"] == "string" else 4 * d["n"] if d["type"] == "zero" else asm.ELEM[d["type"]] * len(d["values"])
    return gap and len(types) >= 2


def check_layout(case, stats):
    data = case["data"]
    ast = {"data": data, "text": [{"ins": ["nop"], "inline": None}], "data_first": case["data_first"], "text_directive": True}
    text, _ = asm.render(ast, case["tape"])
    sim = _sim(text, case)
    base = sim.state.memory.get_address_range().start
    image, variables, end = asm.layout(data, base)
    _compare_bytes(sim, image, base, end, case, text)
    ast2 = dict(ast, data_first=not case["data_first"])
    text2, _ = asm.render(ast2, case["tape"][::-1])
    sim2 = _sim(text2, case, case.get("dcache"))
    if case.get("dcache"):
        # with a data cache configured the assembler still writes the segment below the cache: nothing is counted, and
        # what the program will read through the cache is the same layout
        st_ = sim2.state.memory.get_cache_stats()
        if int(st_["accesses"]) or int(st_["hits"]):
            raise Violation("data-segment-preload-counted", case, f"data-cache counters after load_program: {st_}\n{text2}")
    _compare_bytes(sim2, image, base, end, case, text2)
    tags = {"layout"} | {"type:" + d["type"] for d in data}
    if case.get("dcache"):
        tags.add("loaded-under-data-cache:" + case["dcache"]["type"])
    stats.count(case, _gap_and_mixed(data), tags, sample_tag="layout")


def check_access(case, stats):
    data = case["data"]
    lines = []
    regs = iter(range(6, 32))
    plan = []
    for op, var, idx, value in case["acc"]:
        ref = {"var": var, "idx": idx}
        try:
            if op == "la":
                r = next(regs)
                lines.append({"ins": ["la", r, ref], "inline": None})
                plan.append(("la", r, ref, None, None))
            elif op in rv32.LOAD_OPS:
                r = next(regs)
                lines.append({"ins": [op, r, ref], "inline": None})
                plan.append((op, r, ref, None, None))
            else:
                rv, ra = next(regs), next(regs)
                lines.append({"ins": ["li", rv, value], "inline": None})
                lines.append({"ins": [op, rv, ref, ra], "inline": None})
                plan.append((op, rv, ref, ra, value))
        except StopIteration:
            break
    # code first needs no .text directive ("whether .data comes before or after .text does not matter" includes the
    # layout: instructions, then .data): half of those cases are rendered without it
    ast = {"data": data, "text": lines, "data_first": case["data_first"], "text_directive": bool(case["data_first"] or sum(case["tape"]) % 2 == 0)}
    text, _ = asm.render(ast, case["tape"])
    sim = _sim(text, case)
    base = sim.state.memory.get_address_range().start
    image, variables, end = asm.layout(data, base)
    _run(sim, case)
    got = rvdrive.regs_of(sim)
    indexed = False
    for op, r, ref, ra, value in plan:
        a = asm.var_address(variables, ref)
        indexed = indexed or bool(ref.get("idx"))
        if op == "la":
            if got[r] != a:
                raise Violation("la-address", case, f"la x{r}, {asm._var(ref)}: x{r} = {got[r]:#x}, element address is {a:#x} (base+{a - base})\n{text}")
        elif op in rv32.LOAD_OPS:
            n = rv32.LOAD_W[op]
            v = sum(image.get(a + i, 0) << (8 * i) for i in range(n))
            if op == "lb":
                v = rv32.sx(v, 8) & M32
            elif op == "lh":
                v = rv32.sx(v, 16) & M32
            if got[r] != v:
                raise Violation("load-by-name", case, f"{op} x{r}, {asm._var(ref)}: x{r} = {got[r]:#x}, element holds {v:#x} (address {a:#x})\n{text}")
        else:
            n = rv32.STORE_W[op]
            for i in range(n):
                image[a + i] = ((value & M32) >> (8 * i)) & 0xFF
            if got[ra] != a:
                raise Violation("store-by-name-address-register", case, f"{op} x{r}, {asm._var(ref)}, x{ra}: x{ra} = {got[ra]:#x}, element address {a:#x}\n{text}")
    # memory after all stores
    _compare_bytes(sim, image, base, end, case, text)
    stats.count(case, indexed, {"access"} | {"acc:" + p[0] for p in plan}, sample_tag="access")


def check_li(case, stats):
    consts = case["consts"]
    lines = [{"ins": ["li", 1 + (i % 31), c], "inline": None} for i, c in enumerate(consts)]
    # execute in chunks of 31 so every destination survives until it is read
    nt = False
    for off in range(0, len(lines), 31):
        chunk = lines[off:off + 31]
        ast = {"data": [], "text": chunk, "data_first": False, "text_directive": False}
        text, _ = asm.render(ast, case["tape"], trivia=False)
        sim = _sim(text, case)
        _run(sim, case)
        got = rvdrive.regs_of(sim)
        for item in chunk:
            _, rd, c = item["ins"]
            if got[rd] != c & M32:
                raise Violation("li-constant", {"kind": "li", "consts": [c], "tape": case["tape"]},
                                f"li x{rd}, {c} ({c & M32:#010x}) leaves {got[rd]:#010x}; listing {sim.state.instruction_memory.get_representation()[:4]}")
            low = c & 0xFFF
            stats.count(["li", c & M32], low >= 0x800, {"li:low>=0x800" if low >= 0x800 else "li:low<0x800"}, sample_tag="li")
    return nt


EXAMPLE = """.data
    empty_array: .zero 64 # reserves space for 64 words (256 bytes)
    # The following two declarations of 'my_var1' are equivalent,
    # since zero padding is used to ensure word alignment of new variables/arrays.
    my_var1: .byte -128
    # my_var1: .byte -128, 0, 0, 0
    my_var2: .half 0x1234, 0b1010, 999
    my_var3: .word 0x12345678, 0b111
    text1:   .string "Hello, World!"  # ASCII byte array
.text
    la x1, my_var1     # load address of my_var1 into x1
    lh x2, my_var2     # load halfword from my_var2 into x2
    lh x3, my_var2[0]  # same effect as above
    lh x4, my_var2[2]  # x4 = 999
    lw x5, my_var3[1]  # x5 = 0b111
    lb x6, text1[11]   # x6 = '!'
"""


def check_example(case, stats):
    sim = _sim(EXAMPLE, case)
    base = sim.state.memory.get_address_range().start
    _run(sim, case)
    got = rvdrive.regs_of(sim)
    want = {1: base + 256, 2: 0x1234, 3: 0x1234, 4: 999, 5: 0b111, 6: ord("Hello, World!"[11])}
    for r, v in want.items():
        if got[r] != v:
            raise Violation("documented-example", case, f"x{r} = {got[r]:#x}, documented value {v:#x}")
    if int(sim.state.memory.read_byte(base + 256)) != 0x80:
        raise Violation("documented-example", case, "my_var1 is not stored right behind the 64 zero words")
    stats.count(case, True, {"example"}, sample_tag="example")


# ------------------------------------------------------------------------------------------------------------
def layout_case():
    return st.builds(lambda d, t, f, dc: {"kind": "layout", "data": d, "tape": t, "data_first": f, "dcache": dc},
                     asmgen.data_segment(6).filter(lambda d: len(d) >= 1), asmgen.tape, st.booleans(),
                     st.one_of(st.none(), st.none(), cachecfg.small_cache_config(), cachecfg.cache_config()))


@st.composite
def access_case(draw):
    data = draw(asmgen.data_segment(5).filter(lambda d: len(d) >= 1))
    acc = []
    for _ in range(draw(st.integers(1, 7))):
        d = draw(st.sampled_from(data))
        cnt = len(d["string"]) + 1 if d["type"] == "string" else d["n"] if d["type"] == "zero" else len(d["values"])
        idx = draw(st.one_of(st.none(), st.integers(0, cnt - 1), st.integers(0, cnt - 1), st.just(cnt - 1)))
        _, variables, _ = asm.layout(data, 0x4000)
        a0, size, _n = variables[d["name"]]
        near = [kk for target in (0x800, 0x1000, 0x1800) for kk in [(-(a0 - 0x4000 - target) // size) + j for j in (-1, 0, 1)] if 0 <= kk < cnt]
        if near and draw(st.integers(0, 2)) == 0:
            idx = draw(st.sampled_from(near))
        # use the access width that matches the element type (others would run over the variable's end)
        w = asm.ELEM[d["type"]]
        op = draw(st.sampled_from(["la"] + {1: ["lb", "lbu", "sb"], 2: ["lh", "lhu", "sh"], 4: ["lw", "sw"]}[w] * 2))
        acc.append([op, d["name"], idx, draw(asmgen.li_const)])
    return {"kind": "access", "data": data, "acc": acc, "tape": draw(asmgen.tape), "data_first": draw(st.booleans())}


def li_case(n=31):
    return st.builds(lambda c, t: {"kind": "li", "consts": c, "tape": t}, st.lists(asmgen.li_const, min_size=1, max_size=n), asmgen.tape)


HIGH14 = [0, 1, 0x7FFFF, 0x80000, 0xFFFFE, 0xFFFFF, 0x7FFFE, 0x80001, 0x12345, 0xABCDE, 0x00010, 0xFFF00, 0x55555, 0xAAAAA]


def li_grid(highs, lows):
    consts = [(h << 12) | l for h in highs for l in lows]
    for i in range(0, len(consts), 62):
        yield {"kind": "li", "consts": consts[i:i + 62], "tape": [i % 7, 1, 0, 2]}


def decl_kinds():
    ks = []
    for n in (1, 2, 3, 4, 5):
        ks.append(("byte", [0x80 + i for i in range(n)]))
    for n in (1, 2, 3):
        ks.append(("half", [0x8001 + i for i in range(n)]))
    for n in (1, 2):
        ks.append(("word", [0x80000001 + i for i in range(n)]))
    for t in ("", "a", "ab", "abc", "abcd", "abcde", "'q'", " x ", "a,b:c"):
        ks.append(("string", t))
    for n in (1, 2):
        ks.append(("zero", n))
    return ks


def layout_grid(depth):
    """Deterministic: every ordered pair / triple of declaration kinds (alignment interplay), both segment orders."""
    ks = decl_kinds()
    for combo in itertools.product(range(len(ks)), repeat=depth):
        data = []
        for j, k in enumerate(combo):
            ty, payload = ks[k]
            name = "v%d" % j
            data.append({"name": name, "type": ty, **({"values": payload} if ty in ("byte", "half", "word") else {"string": payload} if ty == "string" else {"n": payload})})
        acc = [["la", data[-1]["name"], None, 0]]
        yield {"kind": "access", "data": data, "acc": acc, "tape": [sum(combo) % 5, 1, 0], "data_first": bool(sum(combo) % 2)}


def corpus():
    return [
        {"kind": "example"},
        {"kind": "layout", "data_first": True, "tape": [1, 2, 3], "data": [
            {"name": "b", "type": "byte", "values": [-128, 255, 256]}, {"name": "h", "type": "half", "values": [0x1234, -1]},
            {"name": "s", "type": "string", "string": "Hi, there"}, {"name": "z", "type": "zero", "n": 3}, {"name": "w", "type": "word", "values": [-1, 1 << 32, 7]}]},
        {"kind": "access", "data_first": False, "tape": [0], "data": [{"name": "z", "type": "zero", "n": 4}, {"name": "h", "type": "half", "values": [1, 0x8000, 3]}],
         "acc": [["la", "z", 1, 0], ["sw", "z", 3, 0x11223344], ["lw", "z", 3, 0], ["lh", "h", 1, 0], ["lhu", "h", 1, 0], ["sh", "h", 2, 0xBEEF]]},
        {"kind": "li", "tape": [0], "consts": [0x7FF, 0x800, 0xFFF, 0x1000, 0x7FFFF800, 0xFFFFF800, 0xFFFFFFFF, -1, -2048, -2049, 0x80000000, 2 ** 32 - 2049]},
    ]


def shards(tier, seed):
    items = []
    if tier == "quick":
        for i in range(2):
            items.append({"what": "layout", "n": 300, "seed": seed * 1000 + i})
        for i in range(2):
            items.append({"what": "access", "n": 300, "seed": seed * 1000 + 10 + i})
        lows = sorted({(m + d) & 0xFFF for m in (0, 0x800) for d in (-2, -1, 0, 1, 2)} | {0x7FF, 0x801, 0x400, 0xC00, 0xFFF, 1})
        items.append({"what": "grid", "highs": [0, 0x7FFFF, 0x80000, 0xFFFFF], "lows": lows + list(range(0, 4096, 64))})
        items.append({"what": "li", "n": 150, "seed": seed * 1000 + 30})
        items.append({"what": "layoutgrid", "depth": 2, "part": 0, "parts": 1})
    else:
        items.append({"what": "layoutgrid", "depth": 2, "part": 0, "parts": 1})
        for p in range(8):
            items.append({"what": "layoutgrid", "depth": 3, "part": p, "parts": 8})
        for i in range(8):
            items.append({"what": "layout", "n": 1000, "seed": seed * 1000 + i})
        for i in range(8):
            items.append({"what": "access", "n": 900, "seed": seed * 1000 + 10 + i})
        for h in HIGH14:
            items.append({"what": "grid", "highs": [h], "lows": list(range(4096))})
        for i in range(4):
            items.append({"what": "li", "n": 500, "seed": seed * 1000 + 30 + i})
    return items


def run_shard(item, stats):
    km = core.known_matcher(ID, globals().get("known_match"))
    w = item["what"]
    if w == "layoutgrid":
        core.run_cases((c for i, c in enumerate(layout_grid(item["depth"])) if i % item["parts"] == item["part"]), check, stats, km)
        stats.exhaustive_parts.append(f"all ordered {item['depth']}-tuples over 21 declaration kinds (alignment interplay)")
    elif w == "layout":
        core.hyp_search(layout_case(), check, stats, item["n"], item["seed"], km)
    elif w == "access":
        core.hyp_search(access_case(), check, stats, item["n"], item["seed"], km)
    elif w == "li":
        core.hyp_search(li_case(), check, stats, item["n"], item["seed"], km)
    else:
        core.run_cases(li_grid(item["highs"], item["lows"]), check, stats, km)
        if len(item["lows"]) == 4096:
            stats.exhaustive_parts.append("li: all 4096 low-12-bit patterns x high part %#x" % item["highs"][0])
