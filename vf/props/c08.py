"""C08 — hazard detection off = interlock-free pipeline: every consumer sees exactly the write-backs completed by
its decode cycle (stale values predicted by vf.ref.pipe), control hazards and ecall draining still handled; nop-padded
programs compute single-cycle results; no decode stall is ever inserted.

case kinds
  {"kind": "prog", "prog", "regs", "mem", "max"}     exact stale-read semantics against the versioned-register model
  {"kind": "pad",  "prog", "regs", "mem", "max"}     prog is padded here (2 nops behind every instruction)
"""
from __future__ import annotations

from hypothesis import strategies as st

from vf import core, pipedrive, rvdrive, rvtext
from vf.core import Violation
from vf.gen import rvprog
from vf.props import c02, c07
from vf.ref import rv32

ID = "C08"
LEVEL = "exploration"
TECHNIQUE = "property-based testing against an independent closed-form pipeline model with a versioned register file (predicts every stale read); metamorphic nop-padding relation against single-cycle mode; exhaustive over the hazard alphabet"
RULE = ("programs x initial states of C02 run with detect_data_hazards=False: per step the retiring address and the whole "
        "register file must equal the interlock-free reference model (exact stale values), plus final memory, output, exit "
        "code, fault cycle/address; stalls <= number of fetched ecalls (0 for ecall-free programs); and nop-padded programs "
        "(two nops behind every instruction) must match single-cycle mode (retire order, registers at every retirement, "
        "memory, output, exit code, counters). non-trivial = (prog) some consumer reads a stale value according to the "
        "model, (pad) the unpadded program has a register dependency at distance < 3; distinct = hash(case)"
        ' The run under test shares the process with a later-created simulation WITH hazard detection that is stepped a'
        'lternately; a reused simulation (ran a program, loaded again) is compared step by step with a fresh one put in'
        'to the same registers and pc.')
ASSUMPTIONS = [
    "the reference schedule with versioned register reads (DESIGN.md §1.2) states 'interlock-free pipeline'",
    "ecall output compared by parse-back",
]
NOP = ["addi", 0, 0, 0]


def _fetch_logger(log):
    def hook(sim):
        im = sim.state.instruction_memory
        orig = im.read_instruction

        def rec(address, *a, **k):
            r = orig(address, *a, **k)
            log.append(address)
            return r

        im.read_instruction = rec  # instance-level recording proxy (harness side)
    return hook


WARM = "addi x5, x0, 1\naddi x6, x5, 2\naddi x7, x6, 3\n"


def check_reuse(case, stats):
    """The option is a property of the simulation object for its whole life: a simulation without hazard detection that
    has run one program and is loaded again behaves, instruction for instruction, like a fresh simulation without hazard
    detection that is put into the same architectural state (registers, pc)."""
    from architecture_simulator.simulation.runtime_errors import InstructionExecutionException
    text = rvtext.render(case["prog"])
    a = rvdrive.new_sim("five", False, case.get("dcache"), None)
    try:
        a.load_program(WARM)
        core.call_with_limit(a.run, 60, "run-does-not-return", case, "run() of the three-instruction warm-up program")
        a.load_program(text)
        b = rvdrive.new_sim("five", False, case.get("dcache"), None)
        b.load_program(text)
    except Exception as ex:           # valid programs by construction
        raise Violation("valid-program-fails", case, f"loading / warming up: {type(ex).__name__}: {ex!r}")
    for i, v in enumerate(a.state.register_file.registers):     # element-wise: the register list hard-wires x0
        b.state.register_file.registers[i] = v
    b.state.program_counter = a.state.program_counter
    stalls0 = a.state.performance_metrics.stalls
    n = 0
    while n < case.get("max", 200):
        da, db = bool(a.is_done()), bool(b.is_done())
        if da != db:
            raise Violation("reused-simulation-differs", case, f"after {n} steps: is_done() {da} (reused) vs {db} (fresh)")
        if da:
            break
        ea = eb = None
        try:
            a.step()
        except InstructionExecutionException as ex:
            ea = ex
        try:
            b.step()
        except InstructionExecutionException as ex:
            eb = ex
        n += 1
        if (ea is None) != (eb is None) or (ea is not None and ea.address != eb.address):
            raise Violation("reused-simulation-differs", case, f"step {n}: {ea!r} (reused) vs {eb!r} (fresh)")
        if ea is not None:
            break
        ra, rb = rvdrive.regs_of(a), rvdrive.regs_of(b)
        if ra != rb or a.state.program_counter != b.state.program_counter or a.state.output != b.state.output:
            bad = [(i, hex(ra[i]), hex(rb[i])) for i in range(32) if ra[i] != rb[i]]
            raise Violation("reused-simulation-differs", case, f"step {n}: (reg, reused, fresh) {bad}, pc {a.state.program_counter} vs {b.state.program_counter}")
    sa, sb = a.state.performance_metrics.stalls - stalls0, b.state.performance_metrics.stalls
    if sa != sb:
        raise Violation("reused-simulation-differs", case, f"stalls after the reload: {sa} (reused) vs {sb} (fresh)")
    stats.count(case, n >= 3, {"kind:reuse"}, sample_tag="reuse")


def check(case, stats):
    if case["kind"] == "pad":
        return check_pad(case, stats)
    if case["kind"] == "reuse":
        return check_reuse(case, stats)
    ref, f0 = c07.check_schedule(case, stats, detect=False)   # retire address per step, total cycles, fault cycle
    # re-run with the fetch log (kept separate so the schedule clause is judged on an unwrapped simulator)
    log = []
    mx = f0.steps
    # ... and, in this second run, next to a simulation of the same program WITH hazard detection that was created later
    # and is stepped alternately: the option belongs to the simulation object, not to the process
    decoy = {}
    logger = _fetch_logger(log)

    def hook(sim):
        logger(sim)
        d = rvdrive.new_sim("five", True)
        rvdrive.load(d, case["prog"], case.get("regs"), case.get("mem"))
        decoy["sim"] = d

    def step_decoy(sim):
        d = decoy["sim"]
        try:
            if not d.is_done():
                d.step()
        except Exception:
            decoy["sim"] = rvdrive.new_sim("five", True)     # it faulted: keep a fresh (done) one around

    with_decoy = not case.get("alpha") or len(case["prog"]) <= 3      # (the long exhaustive tail runs alone, for speed)
    f = pipedrive.run(case, "five", False, max_steps=mx, regs_each_step=True, sim_hook=hook if with_decoy else logger,
                      pre_step=step_decoy if with_decoy else None)
    for s, regs in enumerate(f.regs_each_step, 1):
        exp = ref.regs_at(s)
        if regs != exp:
            bad = [(i, hex(regs[i]), hex(exp[i])) for i in range(32) if regs[i] != exp[i]]
            raise Violation("registers-per-step", case, f"after step {s}: (reg, impl, model) {bad}")
    if ref.fault is None and not ref.truncated:
        if f.final_regs != ref.final_regs():
            raise Violation("final-registers", case, "differs from the interlock-free model")
        exp_mem = {a: v for a, v in ref.mem.cells.items() if v}
        if f.final_mem != exp_mem:
            raise Violation("final-memory", case, c02._memdiff(f.final_mem, exp_mem))
        outs = [o for _, o in ref.outs if o != ("str", [])]   # printing an empty string is not observable
        if len(outs) != len(f.out_growth) or not all(rv32.out_matches(o, t) for o, t in zip(outs, f.out_growth)
                                                       if isinstance(t, str)):
            # consecutive prints may share a step only if they are different ecalls; they never do (one EX per cycle)
            raise Violation("output", case, f"printed {f.out_growth[:6]}, model {outs[:6]}")
        got_exit = f.exit_code
        if (got_exit is None) != (ref.exit is None) or (ref.exit is not None and got_exit % 2 ** 32 != ref.exit):
            raise Violation("exit-code", case, f"{got_exit!r} vs model {ref.exit!r}")
    elif ref.fault is not None:
        if f.fault_regs != ref.regs_at(ref.fault[1]):
            raise Violation("fault-registers", case, "registers at the fault differ from the model")
    # no decode-stage stall: only ecall drains may stall, at most one stall event per fetched ecall
    prog = case["prog"]
    ecalls_fetched = sum(1 for a in log if a % 4 == 0 and 0 <= a // 4 < len(prog) and prog[a // 4][0] == "ecall")
    if f.metrics["stalls"] > ecalls_fetched:
        raise Violation("decode-stall", case, f"stalls={f.metrics['stalls']} but only {ecalls_fetched} ecalls were fetched")
    tags = {"kind:prog"}
    if ref.stale_reads:
        tags.add("stale-read")
    if ref.drains:
        tags.add("ecall-drain")
    if ref.fault:
        tags.add("fault")
    if any(r.stale and r.e.redirect for r in ref.recs):
        tags.add("stale-read-decides-control-flow")
    if any(r.stale and (r.e.store or r.e.load) for r in ref.recs):
        tags.add("stale-read-in-memory-op")
    stats.count(case, ref.stale_reads > 0, tags, sample_tag="prog" + (":alpha" if case.get("alpha") else ""))


def pad(prog):
    out = []
    for ins in prog:
        out += [ins, NOP, NOP]
    return out


def check_pad(case, stats):
    q = dict(case, prog=pad(case["prog"]))
    mx = case.get("max", 300)
    s = pipedrive.run(q, "single", max_steps=mx)
    n = len(s.pcs)
    log = []
    f = pipedrive.run(q, "five", False, max_steps=8 * (n + 1) + 32, stop_after=(n if s.end == "bound" else None),
                      sim_hook=_fetch_logger(log))

    def V(clause, c, detail):
        return Violation("pad-" + clause, case, detail)

    c02.compare(q, s, f, V)
    ecalls_fetched = sum(1 for a in log if a % 4 == 0 and 0 <= a // 4 < len(q["prog"]) and q["prog"][a // 4][0] == "ecall")
    if f.metrics["stalls"] > ecalls_fetched:
        raise Violation("decode-stall", case, f"stalls={f.metrics['stalls']} but only {ecalls_fetched} ecalls were fetched")
    # non-trivial: adjacent or distance-2 register dependency in the unpadded program
    p = case["prog"]
    dep = False
    for i, ins in enumerate(p):
        d = rv32.dest(ins)
        if d:
            for j in (i + 1, i + 2):
                if j < len(p) and d in rv32.sources(p[j]):
                    dep = True
    stats.count(case, dep, {"kind:pad", "pad-end:" + s.end}, sample_tag="pad")


def prog_case(max_len, max_steps):
    # a quarter of the runs build the simulation in two steps (options given to the architectural state, simulation wrapped
    # around it) - the option belongs to the state the pipeline lives in, whichever way it was constructed
    return st.builds(lambda c, sf: dict(c, kind="prog", max=max_steps, state_first=sf), rvprog.program_case(max_len), st.sampled_from([False, False, False, True]))


def pad_case(max_len, max_steps):
    return rvprog.program_case(max_len).map(lambda c: dict(c, kind="pad", max=max_steps))


def reuse_case():
    return rvprog.program_case(14, min_len=5).map(lambda c: {"kind": "reuse", "prog": c["prog"], "max": 200})


def alpha_cases(length, part, parts):
    for c in c02.alpha_cases(length, part, parts):
        yield dict(c, kind="prog")


def corpus():
    B = rvprog.B
    return [dict(c, kind="prog") for c in c02.corpus()] + [
        {"kind": "prog", "prog": [["addi", 1, 0, 5], ["addi", 2, 1, 1], ["add", 3, 1, 2], ["add", 5, 3, 1], ["beq", 2, 0, 8],
                                  ["addi", 10, 1, 0], ["ecall"]], "regs": {"17": 1}, "mem": {}, "max": 50},
        {"kind": "pad", "prog": [["addi", 1, 0, 5], ["addi", 2, 1, 1], ["sw", 8, 2, 0], ["lw", 3, 8, 0], ["add", 10, 3, 1], ["ecall"]],
         "regs": {"17": 1, "8": B}, "mem": {}, "max": 80},
    ]


def shards(tier, seed):
    items = []
    if tier == "quick":
        for L in (1, 2, 3):
            items.append({"what": "alpha", "len": L, "part": 0, "parts": 1})
        for p in range(4):
            items.append({"what": "alpha", "len": 4, "part": p, "parts": 4})
        for i in range(4):
            items.append({"what": "prog", "n": 250, "len": 14, "max": 200, "seed": seed * 1000 + i})
        for i in range(2):
            items.append({"what": "pad", "n": 200, "len": 10, "max": 200, "seed": seed * 1000 + 40 + i})
        items.append({"what": "reuse", "n": 200, "seed": seed * 1000 + 60})
    else:
        for L in (1, 2, 3, 4):
            items.append({"what": "alpha", "len": L, "part": 0, "parts": 1})
        for p in range(32):
            items.append({"what": "alpha", "len": 5, "part": p, "parts": 32})
        for p in range(0, 256, 8):      # length 6: a fixed eighth of the enumeration (the whole of it costs ~1 h here; C02/C07 run it in full)
            items.append({"what": "alpha", "len": 6, "part": p, "parts": 256, "sample": "1/8"})
        for i in range(32):
            items.append({"what": "prog", "n": 1500, "len": 14 if i % 2 else 28, "max": 400, "seed": seed * 1000 + i})
        for i in range(16):
            items.append({"what": "pad", "n": 1000, "len": 12, "max": 400, "seed": seed * 1000 + 40 + i})
        for i in range(4):
            items.append({"what": "reuse", "n": 1500, "seed": seed * 1000 + 60 + i})
    return items


def run_shard(item, stats):
    km = core.known_matcher(ID, globals().get("known_match"))
    w = item["what"]
    if w == "alpha":
        core.run_cases(alpha_cases(item["len"], item["part"], item["parts"]), check, stats, km, distinct=True)
        if item.get("sample"):
            stats.notes.append(f"alphabet sequences of length {item['len']}: a fixed {item['sample']} of the enumeration (every 8th of {item['parts']} parts)")
        else:
            stats.exhaustive_parts.append(f"all {len(c02.ALPHABET)}^{item['len']} alphabet sequences of length {item['len']}")
    elif w == "reuse":
        core.hyp_search(reuse_case(), check, stats, item["n"], item["seed"], km)
    elif w == "prog":
        core.hyp_search(prog_case(item["len"], item["max"]), check, stats, item["n"], item["seed"], km)
    else:
        core.hyp_search(pad_case(item["len"], item["max"]), check, stats, item["n"], item["seed"], km)
