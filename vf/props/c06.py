"""C06 — TOY execution matches the reference accumulator machine, including self-modification.

case = {"first": [mnemonic, addr|None], "len": n, "words": {addr>=1: word}, "accu": a, "max": steps, "via_text": bool}
"""
from __future__ import annotations

import itertools

from hypothesis import strategies as st

from vf import core, toydrive
from vf.core import Violation
from vf.ref import toy as rtoy

ID = "C06"
LEVEL = "exploration"
TECHNIQUE = "property-based lock-step testing against an independent TOY reference machine; exhaustive enumeration of every 16-bit instruction word on boundary accumulator/operand values"
RULE = ("(a) every instruction word of the stated set (quick: 16 opcodes x 9 boundary addresses; thorough: all 65536 words) x 6 "
        "boundary accumulator values x 6 boundary operand-cell values, placed at address 1 so that the real second "
        "half-cycle fetches and decodes it; (b) Hypothesis memory images / programs (length 1..64 and occasionally 4096, "
        "self-modifying stores biased into the program area, BRZ targets biased to 0/self/max_pc/max_pc+1/4095). Lock-step "
        "after every step(): accu, written memory cells, executed address, instruction/cycle/branch counters, done-ness, pc "
        "(mod 4096, constant offset measured at load). non-trivial = a store into the program area that is executed later, "
        "a taken BRZ, a pc wrap, or an opcode >= 13 executed; distinct = hash(case) "
        "A share of the programs is loaded into a USED simulation object (it assembled and executed another program before).")
ASSUMPTIONS = [
    "address 0 holds what the assembler placed (the first instruction is latched at load time); all other cells arbitrary",
    "program length is set by assembling one line and setting max_pc (shortcut); a fraction of cases assembles all lines",
    "the pc convention (pre-incremented) is not pinned, only its consistency and 12-bit wrap-around",
]
ACC_B = [0, 1, 0xFFFF, 0x8000, 0x7FFF, 0x00FF]
CELL_B = [0, 1, 0xFFFF, 0x8000, 0x7FFF, 0xF0F0]
ADDR_B = [0, 1, 2, 3, 0x7FF, 0x800, 0xFFE, 0xFFF, 100]


def check(case, stats):
    sim, ref = toydrive.build(case)
    k = (int(sim.state.program_counter) - ref.pc) % 4096
    n = 0
    mx = case.get("max", 300)
    while True:
        d_impl, d_ref = bool(sim.is_done()), ref.done()
        if d_impl != d_ref:
            raise Violation("done-ness", case, f"after {n} steps is_done()={d_impl}, reference {d_ref} (next pc {ref.pc}, max_pc {ref.max_pc})")
        if d_ref or n >= mx:
            break
        before_mem = dict(ref.mem)
        at, word = ref.step()
        try:
            # the documented machine is the same whether an instruction is driven as one step, as two single-cycle
            # steps (the front end's default button) or as explicit first/second half-cycles
            drive = case.get("drive", "step")
            if drive == "single":
                sim.single_step()
                sim.single_step()
                r = not sim.is_done()
            elif drive == "halves":
                sim.first_cycle_step()
                sim.second_cycle_step()
                r = not sim.is_done()
            else:
                r = sim.step()
        except Exception as ex:
            raise Violation("step-raises", case, f"step {n + 1} (word {word:#06x} at {at}): {type(ex).__name__}: {ex}")
        n += 1
        st_ = sim.state
        where = f"step {n}: executed {rtoy.decode(word)[1]} {word & 0xFFF:#05x} (word {word:#06x}) at address {at}"
        if int(st_.accu) != ref.accu:
            raise Violation("accu:" + rtoy.decode(word)[1], case, f"{where}: accu {int(st_.accu):#06x}, reference {ref.accu:#06x}")
        if st_.address_of_current_instruction != at:
            raise Violation("executed-address", case, f"{where}: address_of_current_instruction={st_.address_of_current_instruction}")
        if (int(st_.program_counter) - ref.pc) % 4096 != k:
            raise Violation("program-counter", case, f"{where}: pc {int(st_.program_counter)}, reference next {ref.pc} (offset {k})")
        for a in set(ref.mem) | set(before_mem):
            if ref.mem.get(a, 0) != before_mem.get(a, 0) or a == (word & 0xFFF):
                got = int(st_.memory.read_halfword(a))
                if got != ref.mem.get(a, 0):
                    raise Violation("memory", case, f"{where}: mem[{a}] = {got:#06x}, reference {ref.mem.get(a, 0):#06x}")
        pm = st_.performance_metrics
        if pm.instruction_count != ref.instructions or pm.cycles != ref.cycles or pm.branch_count != ref.branches:
            raise Violation("counters", case, f"{where}: instructions/cycles/branches {pm.instruction_count}/{pm.cycles}/{pm.branch_count}, "
                            f"reference {ref.instructions}/{ref.cycles}/{ref.branches}")
        if bool(r) != (not ref.done()):
            raise Violation("step-return", case, f"{where}: step() returned {r!r}, reference done={ref.done()}")
    if ref.done():
        # execution has stopped: a further step executes nothing (and says so)
        pm = sim.state.performance_metrics
        c0 = (pm.instruction_count, pm.cycles, int(sim.state.accu))
        try:
            r = sim.step()
        except Exception as ex:
            raise Violation("step-raises", case, f"step() after the program has stopped: {type(ex).__name__}: {ex}")
        if r or (pm.instruction_count, pm.cycles, int(sim.state.accu)) != c0:
            raise Violation("executes-after-stop", case, f"step() after the program has stopped returned {r!r}, counters/accu {c0} -> {(pm.instruction_count, pm.cycles, int(sim.state.accu))}")
    # full memory comparison at the end
    got = {int(a): int(v) for a, v in sim.state.memory.memory_file.items() if int(v)}
    exp = {a: v for a, v in ref.mem.items() if v}
    if got != exp:
        d = [(a, got.get(a, 0), exp.get(a, 0)) for a in sorted(set(got) | set(exp)) if got.get(a, 0) != exp.get(a, 0)]
        raise Violation("final-memory", case, f"(addr, impl, ref) {d[:6]}")
    nt = bool(ref.flags & {"executed-self-modified", "brz-taken", "pc-wrap", "opcode>=13"})
    tags = set(ref.flags) | {"steps:%s" % ("0" if n == 0 else "1-9" if n < 10 else "10-99" if n < 100 else "100+")}
    if case.get("single"):
        tags = {"single-word"}
        nt = True
    stats.count(case, nt, tags, sample_tag="word" if case.get("single") else "program")


def word_case(word, accu, cell):
    addr = word & 0xFFF
    words = {"1": word}
    if addr >= 2:
        words[str(addr)] = cell
    return {"first": ["NOP", None], "len": 2, "words": words, "accu": accu, "max": 4, "single": 1}


def word_cases(words, part, parts):
    for i, (w, a, c) in enumerate(itertools.product(words, ACC_B, CELL_B)):
        if i % parts == part:
            yield word_case(w, a, c)


def pair_cases():
    """Every ordered pair of opcodes (0..15) executed back to back on boundary accumulator / operand values: results that
    are numerically right but misbehave when consumed by the next instruction (representation leaks) show up here."""
    for op1, op2 in itertools.product(range(16), range(16)):
        for accu, cell in ((0xFFFF, 0xFFFF), (0x8000, 0x8001), (0, 1), (1, 0xFFFF), (0x7FFF, 1), (0xFFFF, 1)):
            yield {"first": ["NOP", None], "len": 4, "accu": accu, "max": 8,
                   "words": {"1": (op1 << 12) | 100, "2": (op2 << 12) | 101, "3": 0x9000, "100": cell, "101": cell ^ 0x8001}}


def loop_cases():
    """Control flow that returns to where it is: a taken BRZ onto itself (at address 0 - the latched first instruction - and
    elsewhere), a two-instruction loop, a BRZ that falls through onto itself's successor; each under every drive mode."""
    for drive in ("step", "single", "halves"):
        yield {"first": ["BRZ", 0], "len": 2, "accu": 0, "max": 7, "words": {"1": 0xC000}, "drive": drive}
        yield {"first": ["NOP", None], "len": 3, "accu": 0, "max": 9, "words": {"1": 0x8001, "2": 0xC000}, "drive": drive}
        yield {"first": ["ZRO", None], "len": 3, "accu": 5, "max": 9, "words": {"1": 0x8000, "2": 0xC000}, "drive": drive}
        yield {"first": ["INC", None], "len": 3, "accu": 0xFFFE, "max": 12, "words": {"1": 0x8001, "2": 0x8000}, "drive": drive}
        yield {"first": ["BRZ", 4095], "len": 2, "accu": 0, "max": 6, "words": {"4095": 0x8FFF}, "drive": drive}


@st.composite
def program_case(draw):
    n = draw(st.one_of(st.integers(1, 12), st.integers(1, 64), st.sampled_from([1, 2, 4096])))
    first_mn = draw(st.sampled_from(rtoy.MNEMONICS))
    targets = [0, 1, n - 1, n % 4096, 4095, max(0, n - 2), 2, 3]
    addr = st.one_of(st.sampled_from(targets), st.integers(0, min(n + 3, 4095)), st.integers(0, 4095),
                     st.integers(max(0, 4095 - 6), 4095))
    first = [first_mn, draw(addr) if first_mn in rtoy.ADDR_OPS else None]
    word = st.one_of(
        st.builds(lambda op, a: (op << 12) | a, st.integers(0, 15), addr),
        st.builds(lambda op, a: (op << 12) | a, st.sampled_from([0, 0, 1, 2, 2, 3, 4, 9, 10, 11]), addr),
        st.integers(0, 0xFFFF))
    words = {}
    hi = min(n, 70)
    for a in range(1, hi):
        words[str(a)] = draw(word)
    if n > 70:   # long program: a sprinkle of cells at the top end
        for a in range(n - 4, n):
            words[str(a)] = draw(word)
    for _ in range(draw(st.integers(0, 5))):   # data cells (may be instruction images used by self-modifying code)
        a = draw(st.one_of(st.integers(min(max(1, n), 4095), 4095), st.integers(4090, 4095)))
        if a >= 1:
            words[str(a)] = draw(word)
    accu = draw(st.one_of(st.sampled_from(ACC_B), st.integers(0, 0xFFFF)))
    return {"first": first, "len": n, "words": words, "accu": accu, "max": draw(st.sampled_from([60, 300])),
            "via_text": n <= 24 and draw(st.integers(0, 7)) == 0, "drive": draw(st.sampled_from(["step", "step", "single", "halves"])),
            "reuse": draw(st.sampled_from([0, 0, 0, 3, 8]))}


def corpus():
    return [
        # example 2 of the help page, as a memory image: LDA 3 / INC / STO 3 / LDA 0xFFE / STO 0xFFD, data 3, 4
        {"first": ["LDA", 3], "len": 5, "words": {"1": 0x9000, "2": 0x0003, "3": 0x1FFE, "4": 0x0FFD, "4094": 3, "4095": 4},
         "accu": 0, "max": 50},
        {"first": ["BRZ", 4095], "len": 4096, "words": {"4095": 0x9000, "1": 0x2003, "3": 0xC000}, "accu": 0, "max": 20},
        {"first": ["STO", 1], "len": 3, "words": {"1": 0xF123, "2": 0xD000}, "accu": 0xB000, "max": 20},
        word_case(0x2001, 0, 0), word_case(0xE005, 5, 7),
    ]


def shards(tier, seed):
    items = []
    if tier == "quick":
        words = [(op << 12) | a for op in range(16) for a in ADDR_B]
        for p in range(4):
            items.append({"what": "words", "words": words, "part": p, "parts": 4, "label": "16 opcodes x 9 boundary addresses"})
        for i in range(4):
            items.append({"what": "prog", "n": 400, "seed": seed * 1000 + i})
        items.append({"what": "pairs"})
        items.append({"what": "loops"})
    else:
        for p in range(64):
            items.append({"what": "words", "range": [p * 1024, (p + 1) * 1024], "part": 0, "parts": 1, "label": "all 65536 words"})
        for i in range(32):
            items.append({"what": "prog", "n": 1250, "seed": seed * 1000 + i})
        items.append({"what": "pairs"})
        items.append({"what": "loops"})
    return items


def run_shard(item, stats):
    km = core.known_matcher(ID, globals().get("known_match"))
    if item["what"] == "loops":
        return core.run_cases(loop_cases(), check, stats, core.known_matcher(ID, globals().get("known_match")))
    if item["what"] == "pairs":
        core.run_cases(pair_cases(), check, stats, km, distinct=True)
        stats.exhaustive_parts.append("all 16 x 16 opcode pairs back to back x 6 boundary accu/operand combinations")
        return
    if item["what"] == "words":
        words = item.get("words") or range(*item["range"])
        core.run_cases(word_cases(words, item["part"], item["parts"]), check, stats, km, distinct=True)
        stats.exhaustive_parts.append(item["label"] + " x 6 accu x 6 operand values")
    else:
        core.hyp_search(program_case(), check, stats, item["n"], item["seed"], km)
