"""C17 — displayed values are faithful in all four representations; memory tables list exactly the written words.

case kinds
  {"kind": "fmt", "n": 12|16, "lo": a, "hi": b}            exhaustive formatter ranges (each value in several spellings)
  {"kind": "fmt32", "values": [...]}                        32-bit formatter values (boundary + random, any Python int)
  {"kind": "rv", prog, regs, mem, max, dcache}              register + data-memory tables after every step
  {"kind": "toy", ...C06 case...}                           TOY register representations + memory table after every step
"""
from __future__ import annotations

from hypothesis import strategies as st

from vf import core, rvdrive, toydrive
from vf.core import Violation
from vf.gen import cachecfg, rvprog
from vf.props import c06
from vf.ref import fmt
from vf.ref import toy as rtoy

ID = "C17"
LEVEL = "exploration"
EXHAUSTIVE = True
TECHNIQUE = "exhaustive enumeration of the formatter at 12 and 16 bits with a parse-back oracle; property-based testing of register/memory tables over states reached by generated programs against reference machines"
RULE = ("(a) formatter: ALL 12-bit and ALL 16-bit values, each also as v+2^n, v-2^n, v+5*2^n (negative / over-wide spellings); "
        "32 bit: boundary set + Hypothesis integers incl. negative and over-wide; oracle = parse-back (digit count, grouping "
        "8/2 from the right, denotes v mod 2^n, signed = two's complement); (b) after every step of generated RISC-V programs "
        "(with and without data cache): get_register_entries()[i] shows register i, get_data_memory_entries() lists in "
        "ascending order exactly the words containing a written byte (reference interpreter's written-byte set when "
        "uncached; the backing store's cells when cached) with their true values; (c) TOY: get_register_representations() "
        "(16/12/16 bits) and get_memory_table_entries() after every step. non-trivial = value with the sign bit set or "
        "needing zero padding; table with >=2 rows produced by unaligned byte/half writes; distinct = hash(case)"
        ' After each RISC-V program the used simulation is loaded twice more (no data / a data segment) and the tables '
        'must show exactly the current memory. Register rows are judged against the reference interpreter (x0 shows 0); a deterministic '
        'family writes rows whose addresses are arithmetically related (4A, 2A, A/4, A+2^k) in both orders.')
ASSUMPTIONS = ["TOY representations are blank while no program is loaded (the UI blanks them): only loaded simulations are judged"]
M32 = 0xFFFFFFFF


def check(case, stats):
    k = case["kind"]
    if k == "fmt":
        return check_fmt(case, stats)
    if k == "fmt32":
        return check_fmt32(case, stats)
    if k == "rv":
        return check_rv(case, stats)
    if k == "datatable":
        return check_datatable(case, stats)
    return check_toy(case, stats)


def check_datatable(case, stats):
    """Memory table right after assembling a data segment, judged from the SOURCE (reference layout), not from the
    simulator's own cell dictionary: every word that holds a byte of a .byte/.half/.word/.string declaration (the
    string's terminating zero included) is listed, nothing outside the segment is, and every listed word shows the
    reference value.  (.zero blocks are "reserved": whether their words are listed is left open.)"""
    from architecture_simulator.simulation.riscv_simulation import RiscvSimulation
    from vf.ref import asm
    data = case["data"]
    ast = {"data": data, "text": [{"ins": ["nop"], "inline": None}], "data_first": case["data_first"], "text_directive": True}
    text, _ = asm.render(ast, case["tape"])
    sim = RiscvSimulation()
    try:
        sim.load_program(text)
        rows = sim.get_data_memory_entries()
    except Exception as ex:
        raise Violation("well-formed-program-rejected", case, f"{type(ex).__name__}: {ex!r}\n{text}")
    base = sim.state.memory.get_address_range().start
    image, variables, _end = asm.layout(data, base)
    allw = {a & ~3 for a in image}
    must = set()
    for d in data:
        if d["type"] != "zero":
            a0 = variables[d["name"]][0]
            n = len(d["string"]) + 1 if d["type"] == "string" else asm.ELEM[d["type"]] * len(d["values"])
            must |= {(a0 + i) & ~3 for i in range(n)}
    shown = {r[0][0]: r[1] for r in rows}
    if not (must <= set(shown) <= allw):
        raise Violation("memory-table-rows", case, f"declared words missing from the table: {sorted(hex(a) for a in must - set(shown))[:5]}; "
                        f"rows outside the segment: {sorted(hex(a) for a in set(shown) - allw)[:5]}\n{text}")
    for a, rep in shown.items():
        v = sum(image.get(a + i, 0) << (8 * i) for i in range(4))
        p = fmt.problem(rep, v, 32)
        if p:
            raise Violation("memory-table-value", case, f"word {a:#x} (reference layout {v:#x}): {p}\n{text}")
    lone_nul = any(d["type"] == "string" and (variables[d["name"]][0] + len(d["string"])) % 4 == 0 for d in data)
    stats.count(case, len(must) >= 2, {"datatable"} | ({"string-terminator-alone-in-its-word"} if lone_nul else set()), sample_tag="datatable")


def check_fmt(case, stats):
    from architecture_simulator.util.integer_representations import get_n_bit_representations
    from architecture_simulator.util import integer_representations as ir
    n = case["n"]
    short = {12: ir.get_12_bit_representations, 16: ir.get_16_bit_representations}[n]
    for v in range(case["lo"], case["hi"]):
        for spelled in (v, v + (1 << n), v - (1 << n), v + 5 * (1 << n)):
            r = get_n_bit_representations(spelled, n)
            p = fmt.problem(r, v, n)
            if p:
                raise Violation(f"formatter-{n}", dict(case, lo=v, hi=v + 1), f"get_n_bit_representations({spelled}, {n}) = {r}: {p}")
            stats.evaluations += 1
        if short(v) != get_n_bit_representations(v, n):
            raise Violation(f"formatter-{n}-shorthand", dict(case, lo=v, hi=v + 1), "shorthand differs")
    stats.evaluations -= 1
    stats.count(case, True, {f"fmt{n}"}, sample_tag=f"fmt{n}")
    stats.exhaustive_parts.append(f"formatter: all {n}-bit values x 4 spellings")


def check_fmt32(case, stats):
    from architecture_simulator.util.integer_representations import get_32_bit_representations, get_n_bit_representations
    nt = False
    for v in case["values"]:
        r = get_32_bit_representations(v)
        p = fmt.problem(r, v, 32)
        if p:
            raise Violation("formatter-32", {"kind": "fmt32", "values": [v]}, f"get_32_bit_representations({v}) = {r}: {p}")
        nt = nt or (v % (1 << 32)) >> 31 == 1 or (v % (1 << 32)) < (1 << 28)
    for v, n in case.get("odd", []):
        r = get_n_bit_representations(v, n)
        p = fmt.problem(r, v, n)
        if p:
            raise Violation("formatter-n", {"kind": "fmt32", "values": [], "odd": [[v, n]]}, f"get_n_bit_representations({v}, {n}) = {r}: {p}")
    stats.count(case, nt, {"fmt32"}, sample_tag="fmt32")


def _check_reg_table(case, sim, where, ref_regs=None):
    """The table must show the ARCHITECTURAL registers: what the reference interpreter holds (single-cycle, lock-step), else
    what reading register i through the register file's index operator gives - and x0 is zero by definition."""
    rows = sim.get_register_entries()
    if ref_regs is not None:
        regs = [int(v) & M32 for v in ref_regs]
    else:
        rf = sim.state.register_file.registers
        regs = [0] + [int(rf[i]) & M32 for i in range(1, 32)]
    if len(rows) != 32:
        raise Violation("register-table-rows", case, f"{where}: {len(rows)} rows")
    for i in range(32):
        p = fmt.problem(rows[i], regs[i], 32)
        if p:
            raise Violation("register-table", case, f"{where}: row {i} for x{i}={regs[i]:#x}: {p}")


def check_rv(case, stats):
    from architecture_simulator.simulation.runtime_errors import InstructionExecutionException
    dc = case.get("dcache")
    sim = rvdrive.new_sim(case.get("mode", "single"), True, dc, None)
    rvdrive.load(sim, case["prog"], case.get("regs"), case.get("mem"))
    ref = rvdrive.ref_machine(case["prog"], case.get("regs"), case.get("mem"))
    five = case.get("mode") == "five"
    n = 0
    max_rows = 0
    unaligned_rows = False
    while not sim.is_done() and n < case.get("max", 120):
        try:
            sim.step()
        except InstructionExecutionException:
            break
        n += 1
        if not five:
            e = ref.step()
            if e is not None and e.fault is not None:
                break
        where = f"after step {n}"
        _check_reg_table(case, sim, where, None if five else ref.regs)
        rows = sim.get_data_memory_entries()
        addrs = [r[0][0] for r in rows]
        if addrs != sorted(addrs) or len(set(addrs)) != len(addrs):
            raise Violation("memory-table-order", case, f"{where}: addresses {addrs[:10]}")
        backing = rvdrive.backing_bytes(sim)
        if dc or five:
            want_words = sorted({a & ~3 for a in backing})
            val = lambda a: sum(backing.get(a + i, 0) << (8 * i) for i in range(4))  # noqa: E731
        else:
            want_words = sorted({a & ~3 for a in ref.mem.cells})
            val = lambda a: ref.mem.read(a, 4)  # noqa: E731
        if addrs != want_words:
            raise Violation("memory-table-rows", case, f"{where}: table lists {[hex(a) for a in addrs][:8]}, written words are {[hex(a) for a in want_words][:8]}")
        for r in rows:
            a = r[0][0]
            if r[0][1].lower() != "0x%08x" % a:
                raise Violation("memory-table-address-text", case, f"{where}: {r[0]}")
            p = fmt.problem(r[1], val(a), 32)
            if p:
                raise Violation("memory-table-value", case, f"{where}: word {a:#x} (true value {val(a):#x}): {p}")
        max_rows = max(max_rows, len(rows))
    if not five and not dc:
        unaligned_rows = any(e.store and (e.store[1] < 4 or e.store[0] % 4) for e in ref.trace)
    # the tables show the CURRENT state also after the simulation has been loaded again: first a program without data
    # (the memory table is empty), then one with a data segment (exactly its words)
    for text, want in (("nop\n", {}), (".data\nq: .word 0x01020304, 7\nr: .byte 0x80\n.text\nnop\n", None)):
        try:
            sim.load_program(text)
            rows = sim.get_data_memory_entries()
        except Exception as ex:
            raise Violation("reload-raises", case, f"load_program({text!r}) on the used simulation: {type(ex).__name__}: {ex}")
        backing = rvdrive.backing_bytes(sim)
        words = {a & ~3 for a in backing}
        shown = {r[0][0]: r[1] for r in rows}
        if set(shown) != words:
            raise Violation("memory-table-rows", case, f"after re-loading {text!r}: table lists {sorted(hex(a) for a in shown)[:6]}, memory holds {sorted(hex(a) for a in words)[:6]}")
        for a, rep in shown.items():
            v = sum(backing.get(a + i, 0) << (8 * i) for i in range(4))
            p = fmt.problem(rep, v, 32)
            if p:
                raise Violation("memory-table-value", case, f"after re-loading {text!r}: word {a:#x} (true value {v:#x}): {p}")
        _check_reg_table(case, sim, "after a reload")
    tags = {"rv", "cache" if dc else "nocache", "mode:" + case.get("mode", "single")}
    stats.count(case, max_rows >= 2 and (unaligned_rows or bool(dc) or five), tags, sample_tag="rv-table")


def check_toy(case, stats):
    sim, ref = toydrive.build(case)
    n = 0
    rows_max = 0
    while True:
        where = f"after {n} steps"
        if not sim.has_instructions():
            raise core.HarnessError("generated TOY case has no instructions")
        reps = sim.get_register_representations()
        for key, val, bits in (("accu", ref.accu, 16), ("pc", int(sim.state.program_counter), 12),
                               ("ir", None if ref.done() else (rtoy.canonical(ref.rd(ref.pc)) if not (ref.pc == 0 and n == 0) else toydrive.first_word(case["first"])), 16)):
            if val is None:
                if tuple(reps[key]) != ("", "", "", ""):
                    raise Violation("toy-register-repr", case, f"{where}: {key} shown as {reps[key]} although no instruction is loaded")
                continue
            p = fmt.problem(reps[key], val, bits)
            if p:
                raise Violation("toy-register-repr", case, f"{where}: {key} (value {val:#x}, {bits} bits): {p}")
        table = sim.get_memory_table_entries()
        addrs = [e[0][0] for e in table]
        want = sorted(ref.mem)
        if addrs != want:
            raise Violation("toy-table-rows", case, f"{where}: table lists {addrs[:10]}..., written cells are {want[:10]}...")
        for e in table:
            a = e[0][0]
            if e[0][1].lower() != "0x%03x" % a:
                raise Violation("toy-table-address-text", case, f"{where}: {e[0]}")
            p = fmt.problem(e[1], ref.mem.get(a, 0), 16)
            if p:
                raise Violation("toy-table-value", case, f"{where}: cell {a}: {p}")
            want_ins = "-" if a > ref.max_pc else None
            if want_ins == "-" and e[2] != "-":
                raise Violation("toy-table-instruction-column", case, f"{where}: cell {a} beyond the program shown as instruction {e[2]!r}")
            if a <= ref.max_pc:
                mn = rtoy.decode(ref.mem.get(a, 0))[1]
                if not str(e[2]).upper().startswith(mn):
                    raise Violation("toy-table-instruction-column", case, f"{where}: cell {a} = {ref.mem.get(a, 0):#06x} shown as {e[2]!r}, decodes to {mn}")
        rows_max = max(rows_max, len(table))
        if ref.done() or n >= case.get("max", 60):
            break
        ref.step()
        sim.step()
        n += 1
    stats.count(case, rows_max >= 2 and bool(ref.accu >> 15 or ref.flags), {"toy"}, sample_tag="toy-table")


# ------------------------------------------------------------------------------------------------------------
V32 = [0, 1, -1, 2 ** 31, 2 ** 31 - 1, 2 ** 32 - 1, 2 ** 32, 2 ** 32 + 1, -2 ** 31, -2 ** 32, 255, 256, 0x00FF00FF, 0x01020304, 2 ** 40 + 3,
       -2 ** 40 - 3, 0x80000000 - 1, 0x7F, 0x80, 65535, 65536]


def fmt32_case():
    ints = st.one_of(st.sampled_from(V32), st.integers(0, M32), st.integers(-(2 ** 33), 2 ** 33), st.integers(-(2 ** 70), 2 ** 70))
    odd = st.tuples(st.integers(-(2 ** 20), 2 ** 20), st.sampled_from([1, 3, 4, 5, 8, 9, 12, 16, 17, 20, 24, 31, 32, 33, 64])).map(list)
    return st.builds(lambda v, o: {"kind": "fmt32", "values": v, "odd": o}, st.lists(ints, min_size=1, max_size=40), st.lists(odd, max_size=6))


def rv_case():
    return st.builds(lambda c, d, m: dict(c, kind="rv", dcache=d, mode=m, max=100),
                     st.one_of(rvprog.program_case(12), rvprog.mem_heavy_case(14)),
                     st.one_of(st.none(), st.none(), cachecfg.small_cache_config()), st.sampled_from(["single", "single", "five"]))


def _fix_rv(c):
    # unaligned programs cannot run under a data cache: cached cases use the aligned generator only
    return c


def rv_case_sound():
    nocache = st.builds(lambda c, m: dict(c, kind="rv", dcache=None, mode=m, max=100),
                        st.one_of(rvprog.program_case(12), rvprog.mem_heavy_case(14)), st.sampled_from(["single", "single", "five"]))
    cached = st.builds(lambda c, d, m: dict(c, kind="rv", dcache=d, mode=m, max=100), rvprog.mem_heavy_case(14),
                       cachecfg.small_cache_config(), st.sampled_from(["single", "five"]))
    return st.one_of(nocache, nocache, cached)


def store_pattern_cases():
    """Deterministic: every ordered pair (and some triples) of sub-word / word stores into one word, at three bases
    (bottom of data memory, somewhere in the middle, the very top word), single-cycle and five-stage, table checked
    after every step."""
    import itertools
    kinds = [("sb", 0), ("sb", 1), ("sb", 2), ("sb", 3), ("sh", 0), ("sh", 2), ("sw", 0)]
    T = 2 ** 32
    for base in (rvprog.B, rvprog.B + 0x1234 * 4, T - 4):
        for (o1, f1), (o2, f2) in itertools.product(kinds, kinds):
            for mode in ("single", "five"):
                yield {"kind": "rv", "mode": mode, "dcache": None, "max": 40, "regs": {"8": base, "1": 0x11223344, "2": 0xA5B6C7D8, "3": 0x00000000},
                       "mem": {}, "prog": [[o1, 8, 1, f1], [o2, 8, 2, f2], ["sb", 8, 3, 1], ["sw", 8, 1, -8 if base != rvprog.B else 8]]}
        for (o1, f1), (o2, f2), (o3, f3) in itertools.product(kinds[:4], kinds[:6], kinds[:4]):
            yield {"kind": "rv", "mode": "single", "dcache": None, "max": 40, "regs": {"8": base, "1": 0x11223344, "2": 0xA5B6C7D8, "3": 0x7F},
                   "mem": {}, "prog": [[o1, 8, 1, f1], [o2, 8, 2, f2], [o3, 8, 3, f3]]}


def related_address_cases():
    """Deterministic: tables with rows whose ADDRESSES are arithmetically related (W = 4A, 2A, A/4, A + 2^k, 4A + small, ...),
    written in both orders with byte and word stores - a table keyed or de-duplicated in the wrong unit (byte address vs word
    or block number) loses or merges such rows."""
    B = rvprog.B
    for A in (B, B + 4, B + 0x20, 0x10000, 0x10010, 0x40000):
        rel = sorted({4 * A, 4 * A + 4, 4 * A + 16, 2 * A, A + 0x1000, A // 4 if A // 4 >= B else A + 8, A + (1 << 16), 4 * (A + 4), 8 * A} - {A})
        for Wd in rel:
            for first_a in (True, False):
                for sop, off in (("sw", 0), ("sb", 3), ("sh", 2)):
                    stores = [["sw", 5, 7, 0], [sop, 6, 7, off]]
                    yield {"kind": "rv", "mode": "single" if first_a else "five", "dcache": None, "max": 20,
                           "regs": {"5": A, "6": Wd, "7": 0x80C3A55A}, "mem": {},
                           "prog": (stores if first_a else stores[::-1]) + [["sb", 5, 7, 5], ["sw", 6, 7, 4]]}


def toy_case():
    return c06.program_case().map(lambda c: dict(c, kind="toy", max=40, via_text=False))


def corpus():
    B = rvprog.B
    return [
        {"kind": "fmt", "n": 12, "lo": 2040, "hi": 2056}, {"kind": "fmt32", "values": V32, "odd": [[5, 3], [-1, 1], [300, 9]]},
        {"kind": "rv", "mode": "single", "dcache": None, "max": 50, "prog": [["sb", 8, 1, 3], ["sh", 8, 1, 6], ["sb", 8, 0, 9], ["sw", 8, 1, 14]],
         "regs": {"8": B, "1": 0x80FF7F01}, "mem": {}},
        dict(c06.corpus()[0], kind="toy"),
    ]


def shards(tier, seed):
    items = []
    for lo in range(0, 4096, 1024):
        items.append({"what": "fmt", "n": 12, "lo": lo, "hi": lo + 1024})
    for lo in range(0, 65536, 8192):
        items.append({"what": "fmt", "n": 16, "lo": lo, "hi": lo + 8192})
    items.append({"what": "stores"})
    items.append({"what": "related"})
    for i in range(1 if tier == "quick" else 8):
        items.append({"what": "datatable", "n": 250 if tier == "quick" else 1500, "seed": seed * 1000 + 70 + i})
    if tier == "quick":
        items.append({"what": "fmt32", "n": 500, "seed": seed * 1000})
        for i in range(2):
            items.append({"what": "rv", "n": 100, "seed": seed * 1000 + 10 + i})
        items.append({"what": "toy", "n": 150, "seed": seed * 1000 + 20})
    else:
        for i in range(8):
            items.append({"what": "fmt32", "n": 5000, "seed": seed * 1000 + i})
        for i in range(16):
            items.append({"what": "rv", "n": 800, "seed": seed * 1000 + 10 + i})
        for i in range(8):
            items.append({"what": "toy", "n": 1000, "seed": seed * 1000 + 40 + i})
    return items


def run_shard(item, stats):
    km = core.known_matcher(ID, globals().get("known_match"))
    w = item["what"]
    if w == "datatable":
        from vf.props import c05
        return core.hyp_search(c05.layout_case().map(lambda c: {"kind": "datatable", "data": c["data"], "tape": c["tape"], "data_first": c["data_first"]}),
                               check, stats, item["n"], item["seed"], km)
    if w == "fmt":
        core.run_cases([{"kind": "fmt", "n": item["n"], "lo": item["lo"], "hi": item["hi"]}], check, stats, km)
    elif w == "stores":
        core.run_cases(store_pattern_cases(), check, stats, km)
        stats.exhaustive_parts.append("all ordered pairs (and byte triples) of sub-word/word stores into one word at 3 bases")
    elif w == "related":
        core.run_cases(related_address_cases(), check, stats, km)
    elif w == "fmt32":
        core.hyp_search(fmt32_case(), check, stats, item["n"], item["seed"], km)
    elif w == "rv":
        core.hyp_search(rv_case_sound(), check, stats, item["n"], item["seed"], km)
    else:
        core.hyp_search(toy_case(), check, stats, item["n"], item["seed"], km)


def exhaustive_claim(tier, total):
    return {"exhaustive": False, "explanation": "the space of the property as a whole is not finite; exhaustive only for the 12- and 16-bit formatter sub-domains only; 32-bit values and tables are sampled"}
