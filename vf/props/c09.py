"""C09 — data-cache hit/miss accounting and miss penalties match a reference cache; counters agree between modes
and count each executed load/store exactly once.

case kinds
  {"kind": "history", cfg, pre, ops}     accepted accesses only (rejected ones are outside the accounting claim)
  {"kind": "program", prog, regs, mem, max, dcache}   both modes + reference cache fed the ISA reference's access trace
"""
from __future__ import annotations

from hypothesis import strategies as st

from vf import cachehist, core, pipedrive, rvdrive
from vf.core import Violation
from vf.gen import cachecfg, rvprog
from vf.ref.cache import RefCache

ID = "C09"
LEVEL = "exploration"
TECHNIQUE = "model-based property testing against an independent reference cache (tags + LRU/PLRU), small-scope exhaustive operation sequences on tiny geometries, differential single-cycle vs five-stage counters"
RULE = ("(a) Hypothesis histories of accepted accesses (all widths, counted and uncounted reads, preloads) over a conflict-dense "
        "pool; (b) ALL sequences up to the stated length over the 10 accepted operations of the tiny alphabet on 8 tiny "
        "geometries; after every operation hits/accesses/last_hit (get_cache_stats) and delta(cycles) must equal the "
        "reference cache (two admissible readings of whether an uncounted read allocates are tracked, a run must be "
        "consistent with one); (c) aligned-access programs: counters identical in single-cycle and five-stage mode, accesses "
        "= loads+stores executed by the ISA reference, hits = reference cache fed that trace. non-trivial = history with >=1 "
        "hit, >=1 miss in a full set and >=1 write miss; programs with >=1 hit and >=1 miss; distinct = hash(case)"
        ' Histories contain reset() (optionally after an uncounted-only prefix); deterministic long histories (2600 ope'
        'rations) and a 1100-iteration loop take the counters beyond 1000, which must stay plain decimal numbers. Histories interleave pure '
        'queries (statistics, cache table, memory table, residency) with the accesses. Programs assembled from source with every kind '
        'of data declaration: counters and cycles are zero right after loading, then count exactly the executed accesses.')
ASSUMPTIONS = [
    "whether an uncounted read allocates on a miss is not stated by the property: both readings admissible, consistency required",
    "accesses rejected for crossing a word boundary or leaving the address range are outside the accounting claim",
]


def check(case, stats):
    if case.get("kind", "history") == "history":
        return cachehist.check(case, stats, clauses=("accounting",), nontrivial="c09")
    if case["kind"] == "long":
        st2 = core.Stats()
        try:
            cachehist.check(expand_long(case), st2, clauses=("accounting",), nontrivial="c09")
        except Violation as v:
            raise Violation(v.clause, case, v.detail)      # report the compact form (the history is derived from it)
        stats.count(case, True, {"kind:long-history"}, sample_tag="long")
        return
    if case["kind"] == "source":
        return check_source(case, stats)
    try:
        return check_program(case, stats)
    except ValueError as ex:
        if "invalid literal for int" in str(ex):
            raise Violation("counter-format", case, f"a reported counter is not a plain decimal number: {ex}")
        raise


SOURCE_DECLS = ["a: .word 1, 2, 3, 4", "b: .byte 1, 2, 3", "h: .half 7, 8, 9", 's: .string "hey you"', "z: .zero 4", "y: .zero 1", "w: .word 0xFFFFFFFF"]


def source_cases():
    """Deterministic: programs assembled from SOURCE with a data segment of every declaration kind (in rotating order, so each
    kind comes first once), loaded under data-cache configurations in both modes."""
    cfgs = cachehist.TINY_GEOMETRIES + [{"idx": 2, "blk": 1, "ways": 2, "type": "wb", "repl": "lru", "pen": 3}, {"idx": 1, "blk": 2, "ways": 4, "type": "wt", "repl": "plru", "pen": 1}]
    for r in range(len(SOURCE_DECLS)):
        for ci, cfg in enumerate(cfgs):
            for mode in ("single", "five"):
                if (r + ci) % 2 == (mode == "five"):
                    yield {"kind": "source", "rot": r, "dcache": cfg, "mode": mode}


def check_source(case, stats):
    """Assembling is not executing: right after load_program the data-cache counters read 0/0/False and no cycle has been
    counted, whatever the data segment declares; the run then counts exactly the executed loads/stores, with the hits of a cold
    reference cache."""
    dc = case["dcache"]
    decls = SOURCE_DECLS[case["rot"]:] + SOURCE_DECLS[:case["rot"]]
    first = decls[0].split(":")[0]
    text = ".data\n" + "\n".join(decls) + "\n.text\nla x5, " + first + "\nlw x6, 0(x5)\nlw x7, 4(x5)\nsw x6, 8(x5)\nlw x6, 0(x5)\nlb x7, 9(x5)\n"
    sim = rvdrive.new_sim(case["mode"], True, dc, None)
    sim.load_program(text)
    st0 = sim.get_data_cache_stats()
    if (str(st0["hits"]), str(st0["accesses"]), bool(st0["last_hit"])) != ("0", "0", False) or sim.state.performance_metrics.cycles != 0:
        raise Violation("load-counted", case, f"right after load_program: data-cache statistics {st0}, cycles {sim.state.performance_metrics.cycles}\n{text}")
    core.call_with_limit(sim.run, 60, "run-does-not-return", case, "run() of a straight-line program")
    base = sim.state.memory.get_address_range().start
    rc = RefCache(dc["idx"], dc["blk"], dc["ways"], dc["repl"], dc["type"])
    hits = [rc.read(base), rc.read(base + 4), rc.write(base + 8), rc.read(base), rc.read(base + 9)]
    st1 = sim.get_data_cache_stats()
    if (int(st1["accesses"]), int(st1["hits"]), bool(st1["last_hit"])) != (5, sum(hits), bool(hits[-1])):
        raise Violation("program-hits", case, f"after the run: {st1}; 5 accesses with hits {hits} expected\n{text}")
    stats.count(case, 0 < sum(hits) < 5, {"kind:source", "dc:" + dc["type"]}, sample_tag="source")


def check_program(case, stats):
    dc = case["dcache"]
    mx = case.get("max", 250)
    s = pipedrive.run(case, "single", True, dc, None, max_steps=mx)
    n = len(s.pcs)
    f = pipedrive.run(case, "five", True, dc, None, max_steps=8 * (n + 1) + 32, stop_after=(n if s.end == "bound" else None))
    # ISA reference trace -> reference cache
    ref = rvdrive.ref_machine(case["prog"], case.get("regs"), case.get("mem"))
    ref.run(n)
    rc_models = {"alloc": RefCache(dc["idx"], dc["blk"], dc["ways"], dc["repl"], dc["type"]),
                 "noalloc": RefCache(dc["idx"], dc["blk"], dc["ways"], dc["repl"], dc["type"])}
    acc = 0
    hits = {"alloc": 0, "noalloc": 0}
    last = {"alloc": False, "noalloc": False}
    for e in ref.trace:
        if e.fault is not None:
            break
        for name, rc in rc_models.items():
            if e.load is not None:
                h = rc.read(e.load[0])
                hits[name] += int(h)
                last[name] = h
            elif e.store is not None:
                h = rc.write(e.store[0])
                hits[name] += int(h)
                last[name] = h
            if name == "alloc":
                for a in e.str_reads:          # ecall 4 reads the string with uncounted accesses
                    rc.read(a)
        acc += int(e.load is not None or e.store is not None)
    if s.end in ("done", "bound") and ref.fault is None:
        sd = s.dstats
        if int(sd["accesses"]) != acc:
            raise Violation("program-accesses", case, f"single-cycle counted {sd['accesses']} accesses, the program executed {acc} loads/stores")
        ok = [name for name in rc_models if int(sd["hits"]) == hits[name]]
        if not ok:
            raise Violation("program-hits", case, f"single-cycle counted {sd['hits']} hits, reference cache {hits}")
        if acc and not any(bool(sd["last_hit"]) == last[name] for name in ok):
            raise Violation("program-last-hit", case, f"last_hit={sd['last_hit']}, reference {last}")
    if s.end == "done" and f.end == "done":
        for k in ("hits", "accesses", "last_hit"):
            if str(s.dstats[k]) != str(f.dstats[k]):
                raise Violation("program-modes-differ", case, f"{k}: single-cycle {s.dstats[k]}, five-stage {f.dstats[k]}")
    tags = {"kind:program", "dc:" + dc["type"], "end:" + s.end}
    h = int(s.dstats["hits"])
    stats.count(case, h >= 1 and acc - h >= 1, tags, sample_tag="program")


def long_cases():
    """Deterministic long histories (>= 1000 counted accesses and >= 1000 hits): the counters are reported as plain numbers
    of any magnitude, and nothing drifts over a long run."""
    for g, cfg in enumerate(cachehist.TINY_GEOMETRIES[:6] + [{"idx": 2, "blk": 1, "ways": 4, "type": "wb", "repl": "plru", "pen": 1},
                                                              {"idx": 1, "blk": 0, "ways": 4, "type": "wt", "repl": "lru", "pen": 2}]):
        yield {"kind": "long", "cfg": cfg, "n": 2600, "g": g}
    B = cachehist.B
    for mode_dc in ({"idx": 1, "blk": 1, "ways": 2, "type": "wb", "repl": "lru", "pen": 1}, {"idx": 0, "blk": 0, "ways": 2, "type": "wt", "repl": "plru", "pen": 0}):
        yield {"kind": "program", "max": 6000, "dcache": mode_dc, "regs": {"8": B}, "mem": {},
               "prog": [["addi", 5, 0, 1100], ["lw", 6, 8, 0], ["sw", 8, 5, 8], ["addi", 5, 5, -1], ["bne", 5, 0, -12]]}


def expand_long(case):
    cfg = case["cfg"]
    cap_words = (1 << cfg["idx"]) * cfg["ways"] * (1 << cfg["blk"])
    span = 2 * cap_words + 3
    ops = []
    for i in range(case["n"]):
        a = cachehist.B + 4 * ((i * 7 + i // 13) % span)
        if i % 3 == 0:
            ops.append(["w", 4, a, (i * 2654435761) & 0xFFFFFFFF])
        elif i % 5 == 0:
            ops.append(["r", 1, a + i % 4, True])
        else:
            ops.append(["r", 4, a, True])
    return {"cfg": cfg, "pre": [], "ops": ops}


def program_case():
    return st.builds(lambda c, d: dict(c, kind="program", dcache=d, max=250), rvprog.mem_heavy_case(18),
                     st.one_of(cachecfg.small_cache_config(), cachecfg.small_cache_config(), cachecfg.cache_config()))


def corpus():
    B = cachehist.B
    return [dict(c, kind="history") for c in cachehist.corpus()] + [
        {"kind": "program", "max": 100, "dcache": {"idx": 0, "blk": 0, "ways": 1, "type": "wt", "repl": "lru", "pen": 2},
         "prog": [["sw", 8, 1, 0], ["lw", 2, 8, 0], ["lw", 2, 8, 0], ["sw", 8, 1, 0], ["lw", 3, 8, 4], ["addi", 17, 0, 4], ["addi", 10, 8, 0], ["ecall"], ["lw", 3, 8, 4]],
         "regs": {"8": B, "1": 0x00424241}, "mem": {}},
    ]


def shards(tier, seed):
    items = []
    if tier == "quick":
        for i in range(4):
            items.append({"what": "history", "n": 150, "ops": 50, "seed": seed * 1000 + i})
        for L in (1, 2, 3, 4):
            items.append({"what": "tiny", "len": L, "part": 0, "parts": 1})
        for i in range(2):
            items.append({"what": "program", "n": 150, "seed": seed * 1000 + 50 + i})
    else:
        for i in range(16):
            items.append({"what": "history", "n": 1500, "ops": 100, "seed": seed * 1000 + i})
        for L in (1, 2, 3, 4):
            items.append({"what": "tiny", "len": L, "part": 0, "parts": 1})
        for p in range(16):
            items.append({"what": "tiny", "len": 5, "part": p, "parts": 16})
        for p in range(32):
            items.append({"what": "tiny", "len": 6, "part": p, "parts": 32, "geos": [0, 2, 5, 7]})
        for i in range(16):
            items.append({"what": "program", "n": 700, "seed": seed * 1000 + 50 + i})
    items.append({"what": "long"})
    items.append({"what": "source"})
    items.append({"what": "partial"})
    for i in range(2 if tier == "quick" else 8):
        items.append({"what": "machine", "n": 60 if tier == "quick" else 800, "seed": seed * 1000 + 900 + i})
    return items


def run_shard(item, stats):
    if item.get("what") == "machine":
        from vf import machines
        return machines.machine_search(machines.cache_machine(stats, ('accounting',), 'c09', True), stats, item["n"], item["seed"])
    km = core.known_matcher(ID, globals().get("known_match"))
    w = item["what"]
    if w == "history":
        core.hyp_search(cachehist.history_case(accepted_only=True, max_ops=item["ops"]).map(lambda c: dict(c, kind="history")),
                        check, stats, item["n"], item["seed"], km)
    elif w == "partial":
        core.run_cases((dict(c, kind="history") for c in cachehist.partial_fill_cases()), check, stats, km)
    elif w == "long":
        core.run_cases(long_cases(), check, stats, km)
    elif w == "source":
        core.run_cases(source_cases(), check, stats, km)
    elif w == "tiny":
        geos = [cachehist.TINY_GEOMETRIES[g] for g in item.get("geos", range(8))]
        core.run_cases((dict(c, kind="history") for c in cachehist.tiny_cases(item["len"], item["part"], item["parts"], False, geos)),
                       check, stats, km, distinct=True)
        stats.exhaustive_parts.append(f"all 10^{item['len']} accepted-operation sequences of length {item['len']} on {len(geos)} tiny geometries")
    else:
        core.hyp_search(program_case(), check, stats, item["n"], item["seed"], km)
