"""C04 — the assembler places exactly the instruction sequence the documented syntax denotes: real instructions
with their written operands, pseudo-instructions as groups with the documented effect (the same wherever they
occur), labels = address of the next emitted instruction after expansion, correct pc-relative displacements,
spelling and trivia never change the result.

case = {"ast": <vf.ref.asm AST>, "tape": [...], "tape2": [...]}
"""
from __future__ import annotations

import json

from vf import core
from vf.core import Violation
from vf.gen import asmgen
from vf.ref import asm, rv32
from vf.ref.bytestore import riscv_store

ID = "C04"
LEVEL = "exploration"
TECHNIQUE = "grammar-based property testing: generated source ASTs rendered with random spelling, assembled by the simulator and by a reference assembler (denotation + executed pseudo-instruction effect), plus a metamorphic re-rendering relation"
RULE = ("Hypothesis ASTs from the documented grammar (all real instructions in every documented operand form, pseudo-"
        "instructions nop/mv/li/la/load-by-name/store-by-name, stand-alone and in-line labels anywhere incl. on expanding "
        "pseudo-instructions and at the end, forward/backward references, label+0xoffset, numeric operands, optional "
        "segment directives) rendered with a choice tape (ABI/xN names, mnemonic case, dec/hex/bin, signs, spacing, "
        "indentation, comments, blank lines). Oracle: instructions at consecutive addresses from 0 equal the denotation "
        "(real: class+fields from the AST; pseudo: the group the assembler emits for that line in isolation, which must "
        "have the documented effect when executed in the reference interpreter); labels = prefix sums; B/J displacements; "
        "a second rendering (other tape, in-line labels made stand-alone) yields the identical listing and data memory. "
        "non-trivial = a multi-instruction expansion precedes a referenced label, or an in-line label sits on a pseudo-"
        "instruction; distinct = hash(AST)"
        ' The second rendering and an instruction-less text are then loaded into the USED simulation: same listing / da'
        'ta as a fresh load, empty listing.')
ASSUMPTIONS = [
    "label/variable names never equal a mnemonic, register or directive; no leading-zero decimals (that is C15's domain)",
    "t0 after a load-by-name is don't-care (help page: 't0 will be overwritten'); the address register of a store-by-name is never x0",
    "the data layout rule (first data address, 4-byte alignment, element strides) is shared with C05",
]
M32 = 0xFFFFFFFF
B = 2 ** 14


def known_match(v):
    if v.clause == "pseudo-effect" and "load-by-name into x0" in v.detail:
        return "load-by-name-x0"
    return None


def _load(text):
    from architecture_simulator.simulation.riscv_simulation import RiscvSimulation
    sim = RiscvSimulation()
    sim.load_program(text)
    return sim


def emitted(sim):
    rep = sim.state.instruction_memory.get_representation()
    out = []
    for k, (addr, _txt) in enumerate(rep):
        if addr != 4 * k:
            return None, f"instruction #{k} lives at address {addr}, expected {4 * k}"
        obj = sim.state.instruction_memory.read_instruction(addr)
        out.append((asm.abstract_of(obj), getattr(obj, "abs_addr", None)))
    return out, None


def isolated_group(decls, ins, cache):
    key = json.dumps(ins, sort_keys=True)
    if key not in cache:
        mini = {"data": decls, "text": [{"ins": ins, "inline": None, "form": 0}], "data_first": True, "text_directive": True}
        text, _ = asm.render(mini, [0], trivia=False)
        sim = _load(text)
        em, err = emitted(sim)
        if em is None:
            raise Violation("isolated-pseudo-layout", {"ast": mini, "tape": [0], "tape2": [0]}, err)
        cache[key] = [a for a, _ in em]
    return cache[key]


def effect_problem(ins, group, image, variables):
    """Execute `group` in the reference interpreter from two register states; None if it has the documented effect."""
    op = ins[0]
    for salt in (0, 1):
        regs = {r: ((0x01010101 * r + 0x00ABCDEF) if salt == 0 else (M32 - 977 * r)) & M32 for r in range(1, 32)}
        store = riscv_store(B)
        for a, v in image.items():
            store.write(a, 1, v)
        mem0 = dict(store.cells)
        m = rv32.Machine({4 * i: g for i, g in enumerate(group)}, regs, store)
        for _ in group:
            e = m.step()
            if e is None:
                return "group ends early"
            if e.fault is not None:
                if op in rv32.LOAD_OPS and ins[1] == 0:
                    return f"load-by-name into x0 faults at run time ({e.fault}): the address is built in x0"
                return f"group faults: {e.fault} ({group})"
            if e.redirect:
                return "group transfers control"
        if m.pc != 4 * len(group):
            return "pc after group"
        before = [0] + [regs[r] for r in range(1, 32)]
        want = list(before)
        dontcare = set()
        want_mem = dict(mem0)
        if op == "nop":
            pass
        elif op == "mv":
            want[ins[1]] = before[ins[2]]
        elif op == "li":
            want[ins[1]] = ins[2] & M32
        elif op == "la":
            want[ins[1]] = asm.var_address(variables, ins[2])
        elif op in rv32.LOAD_OPS:
            a = asm.var_address(variables, ins[2])
            n = rv32.LOAD_W[op]
            v = sum(mem0.get(a + i, 0) << (8 * i) for i in range(n))
            if op == "lb":
                v = rv32.sx(v, 8) & M32
            elif op == "lh":
                v = rv32.sx(v, 16) & M32
            dontcare.add(5)
            want[ins[1]] = v
        elif op in rv32.STORE_OPS:
            a = asm.var_address(variables, ins[2])
            n = rv32.STORE_W[op]
            want[ins[3]] = a
            val = a if ins[1] == ins[3] else before[ins[1]]
            for i in range(n):
                want_mem[a + i] = (val >> (8 * i)) & 0xFF
        want[0] = 0
        for r in range(32):
            if r in dontcare and r != ins[1]:
                continue
            if m.regs[r] != want[r]:
                return f"x{r} = {m.regs[r]:#x}, documented effect gives {want[r]:#x} (group {group})"
        got_mem = {a: v for a, v in store.cells.items() if v}
        if got_mem != {a: v for a, v in want_mem.items() if v}:
            return f"memory after the group differs from the documented effect (group {group})"
    return None


def _spell(v, style):
    sign = "-" if v < 0 else ""
    a = abs(v)
    return {"dec": sign + str(a), "hex": sign + "0x%x" % a, "HEX": sign + "0x%X" % a, "bin": sign + "0b" + bin(a)[2:]}[style]


def grid_lines():
    """Deterministic spelling grid: every register name (xN and ABI) in every operand position of one instruction per
    format, and every number spelling of boundary values in every numeric operand position.
    -> list of (source line, expected abstract instruction at that line's address, uses-pc)"""
    names = [("x%d" % r, r) for r in range(32)] + [(n, r) for r, ns in asm.ABI.items() for n in ns]
    out = []
    for name, r in names:
        out += [(f"add {name}, x1, x2", ["add", r, 1, 2]), (f"sub x1, {name}, x2", ["sub", 1, r, 2]), (f"xor x1, x2, {name}", ["xor", 1, 2, r]),
                (f"addi {name}, x1, -3", ["addi", r, 1, -3]), (f"andi x1, {name}, 7", ["andi", 1, r, 7]),
                (f"slli {name}, x2, 3", ["slli", r, 2, 3]), (f"srai x2, {name}, 31", ["srai", 2, r, 31]),
                (f"lw {name}, 4(x1)", ["lw", r, 1, 4]), (f"lb x1, -4({name})", ["lb", 1, r, -4]), (f"lhu x1, {name}, 8", ["lhu", 1, r, 8]),
                (f"lh {name}, x1, 8", ["lh", r, 1, 8]),
                (f"sw {name}, 4(x1)", ["sw", 1, r, 4]), (f"sb x1, -1({name})", ["sb", r, 1, -1]), (f"sh {name}, x1, 2", ["sh", 1, r, 2]),
                (f"sh x1, {name}, 2", ["sh", r, 1, 2]),
                (f"beq {name}, x1, 8", ["beq", r, 1, 8]), (f"bgeu x1, {name}, -8", ["bgeu", 1, r, -8]),
                (f"lui {name}, 5", ["lui", r, 5]), (f"auipc {name}, -1", ["auipc", r, -1]),
                (f"jalr {name}, x1, 4", ["jalr", r, 1, 4]), (f"jalr x1, {name}, -4", ["jalr", 1, r, -4]),
                (f"mv {name}, x3", ["addi", r, 3, 0]), (f"mv x3, {name}", ["addi", 3, r, 0]), (f"li {name}, 9", ["addi", r, 0, 9]),
                (f"csrrw {name}, 0x300, x1", ["csrrw", r, 0x300, 1]), (f"csrrs x1, 768, {name}", ["csrrs", 1, 768, r]),
                (f"csrrwi {name}, 3, 4", ["csrrwi", r, 3, 4])]
    for style in ("dec", "hex", "HEX", "bin"):
        for v in (0, 1, -1, 2047, -2048, 5, -5, 0x7FF, 0x400, 4095, 2048, 100, -100):
            t = _spell(v, style)
            i12 = rv32.sx(v, 12)
            out += [(f"addi x1, x2, {t}", ["addi", 1, 2, i12]), (f"sltiu x1, x2, {t}", ["sltiu", 1, 2, i12]), (f"lw x1, {t}(x2)", ["lw", 1, 2, i12]),
                    (f"lbu x1, x2, {t}", ["lbu", 1, 2, i12]), (f"sw x1, {t}(x2)", ["sw", 2, 1, i12]), (f"sh x1, x2, {t}", ["sh", 2, 1, i12]),
                    (f"jalr x1, x2, {t}", ["jalr", 1, 2, i12])]
        for v in (0, 1, 15, 16, 31):
            out += [(f"slli x1, x2, {_spell(v, style)}", ["slli", 1, 2, v]), (f"csrrwi x1, {_spell(v * 100, style)}, {_spell(v, style)}", ["csrrwi", 1, v * 100, v])]
        for v in (0, 1, -1, 0x7FFFF, -0x80000, 0xFFFFF, 0x80000, 0x12345):
            out += [(f"lui x1, {_spell(v, style)}", ["lui", 1, rv32.sx(v, 20)]), (f"auipc x2, {_spell(v, style)}", ["auipc", 2, rv32.sx(v, 20)])]
        for v in (0, 2, -2, 8, -8, 4094, -4096, 100, -100):
            out += [(f"beq x1, x2, {_spell(v, style)}", ["beq", 1, 2, v]), (f"bltu x3, x4, {_spell(v, style)}", ["bltu", 3, 4, v])]
    return out


def check_grid(case, stats):
    lines = grid_lines()[case["lo"]:case["hi"]]
    text = "\n".join(l for l, _ in lines) + "\n"
    try:
        sim = _load(text)
    except Exception as ex:
        ln = getattr(ex, "line_number", None)
        bad = lines[ln - 1][0] if isinstance(ln, int) and 1 <= ln <= len(lines) else "?"
        raise Violation("well-formed-line-rejected", case, f"{type(ex).__name__}: {ex!r}: line {bad!r}")
    em, err = emitted(sim)
    if em is None or len(em) != len(lines):
        raise Violation("grid-instruction-count", case, err or f"{len(em)} instructions for {len(lines)} lines")
    for (line, want), (got, _abs) in zip(lines, em):
        if got != want:
            raise Violation("spelling-grid", case, f"{line!r} assembles to {got}, denotes {want}")
        stats.count(["grid", line], True, {"grid"}, sample_tag="grid")


def check_fit(case, stats):
    """A program that fills the instruction memory exactly (4096 instructions, the last group a two-instruction li, a jal
    back to the first label) assembles like any other: consecutive addresses, right displacement over the maximal distance."""
    n = case["n"]
    lines = ["start:"] + ["addi x%d, x0, %d" % (i % 32, i % 2048) for i in range(n - 3)] + ["far: li x5, 100000", "jal x0, start"]
    text = "\n".join(lines) + "\n"
    try:
        sim = _load(text)
    except Exception as ex:
        raise Violation("well-formed-program-rejected", case, f"{n} instructions (the instruction memory holds 4096): {type(ex).__name__}: {ex!r}")
    em, err = emitted(sim)
    if em is None or len(em) != n:
        raise Violation("addresses-not-consecutive", case, err or f"{len(em)} instructions emitted for {n}")
    want_jal = ["jal", 0, -4 * (n - 1)]
    if em[-1][0] != want_jal:
        raise Violation("real-instruction-displacement", case, f"last instruction {em[-1][0]}, denotes {want_jal}")
    for i in (0, 1, n // 2, n - 4):
        if em[i][0] != ["addi", i % 32, 0, i % 2048]:
            raise Violation("real-instruction-operands", case, f"instruction {i}: {em[i][0]}")
    stats.count(case, True, {"fit:%d" % n}, sample_tag="fit")


def check(case, stats):
    if case.get("kind") == "grid":
        return check_grid(case, stats)
    if case.get("kind") == "fit":
        return check_fit(case, stats)
    ast = case["ast"]
    text, line_of = asm.render(ast, case["tape"])
    try:
        sim = _load(text)
    except Exception as ex:
        raise Violation("well-formed-program-rejected", case, f"{type(ex).__name__}: {ex!r}\n{text}")
    em, err = emitted(sim)
    if em is None:
        raise Violation("addresses-not-consecutive", case, err)
    base = sim.state.memory.get_address_range().start
    image, variables, _ = asm.layout(ast["data"], base)
    cache = {}
    # pass 1: group lengths and label addresses
    lens = []
    labels = {}
    addr = 0
    multi_before_label = False
    seen_multi = False
    inline_on_pseudo = False
    referenced = set()
    for item in ast["text"]:
        if "ins" in item:
            for x in item["ins"][1:]:
                if isinstance(x, dict) and "label" in x:
                    referenced.add(x["label"])
    for item in ast["text"]:
        if "label" in item:
            labels[item["label"]] = addr
            if seen_multi and item["label"] in referenced:
                multi_before_label = True
            lens.append(0)
            continue
        if item.get("inline"):
            labels[item["inline"]] = addr
            if seen_multi and item["inline"] in referenced:
                multi_before_label = True
        if asm.is_pseudo(item["ins"]):
            g = isolated_group(ast["data"], item["ins"], cache)
            lens.append(len(g))
            if len(g) > 1:
                seen_multi = True
            if item.get("inline"):
                inline_on_pseudo = True
        else:
            lens.append(1)
        addr += 4 * lens[-1]
    # pass 2: compare
    k = 0
    addr = 0
    tags = set()
    for item, n in zip(ast["text"], lens):
        if "label" in item:
            continue
        ins = item["ins"]
        if asm.is_pseudo(ins):
            g = cache[json.dumps(ins, sort_keys=True)]
            got = [a for a, _ in em[k:k + n]]
            if got != g:
                raise Violation("pseudo-not-position-independent", case, f"{ins} at {addr:#x} emitted {got}, in isolation it emits {g}\n{text}")
            p = effect_problem(ins, g, image, variables)
            if p:
                raise Violation("pseudo-effect", case, f"{ins}: {p}")
            tags.add("pseudo:" + (ins[0] if ins[0] in ("nop", "mv", "li", "la") else "byname"))
        else:
            if k >= len(em):
                raise Violation("instruction-missing", case, f"no instruction emitted for {ins} at {addr:#x}\n{text}")
            want, extra = asm.denote_real(ins, addr, labels)
            got, abs_addr = em[k]
            if got != want:
                what = "displacement" if ins[0] in rv32.BRANCH_OPS or ins[0] == "jal" else "operands"
                raise Violation("real-instruction-" + what, case, f"{ins} at {addr:#x}: assembled {got}, denotes {want} (labels {labels})\n{text}")
            if "abs_addr" in extra and abs_addr != extra["abs_addr"]:
                raise Violation("jal-abs-addr", case, f"{ins} at {addr:#x}: abs_addr {abs_addr}, expected {extra['abs_addr']}")
            tags.add("real:" + ("branch/jal" if ins[0] in rv32.BRANCH_OPS or ins[0] == "jal" else "other"))
        k += n
        addr += 4 * n
    if k != len(em):
        raise Violation("extra-instructions", case, f"{len(em)} instructions emitted, the source denotes {k}\n{text}")
    # metamorphic: other spelling, in-line labels made stand-alone
    ast2 = dict(ast, text=[])
    for item in ast["text"]:
        if "ins" in item and item.get("inline"):
            ast2["text"].append({"label": item["inline"]})
            ast2["text"].append(dict(item, inline=None, form=1 - item.get("form", 0)))
        elif "ins" in item:
            ast2["text"].append(dict(item, form=1 - item.get("form", 0)))
        else:
            ast2["text"].append(item)
    text2, _ = asm.render(ast2, case["tape2"])
    try:
        sim2 = _load(text2)
    except Exception as ex:
        raise Violation("re-rendering-rejected", case, f"{type(ex).__name__}: {ex!r}\n--- first rendering ---\n{text}\n--- second ---\n{text2}")
    if sim.state.instruction_memory.get_representation() != sim2.state.instruction_memory.get_representation():
        raise Violation("spelling-changes-program", case, f"listings differ\n--- first rendering ---\n{text}\n--- second ---\n{text2}")
    m1 = {a: int(v) for a, v in sim.state.memory.memory_file.items() if int(v)}
    m2 = {a: int(v) for a, v in sim2.state.memory.memory_file.items() if int(v)}
    if m1 != m2:
        raise Violation("spelling-changes-data", case, "data memory differs between two renderings")
    # what a simulation assembled (and showed) before does not matter: the used simulation re-loads the second rendering,
    # then a text that denotes no instruction at all
    listing2 = sim2.state.instruction_memory.get_representation()
    try:
        sim.load_program(text2)
        again = sim.state.instruction_memory.get_representation()
        m3 = {a: int(v) for a, v in sim.state.memory.memory_file.items() if int(v)}
        sim.load_program("# nothing\n\n")
        nothing = sim.state.instruction_memory.get_representation()
    except Exception as ex:
        raise Violation("load-depends-on-earlier-load", case, f"re-loading into the used simulation: {type(ex).__name__}: {ex!r}\n{text2}")
    if again != listing2 or m3 != m2:
        raise Violation("load-depends-on-earlier-load", case, f"listing/data after loading into a used simulation differ from a fresh load\n--- earlier ---\n{text}\n--- then ---\n{text2}")
    if list(nothing):
        raise Violation("load-depends-on-earlier-load", case, f"a text without instructions loaded after\n{text2}\nlists {list(nothing)[:3]}")
    if multi_before_label:
        tags.add("expansion-before-referenced-label")
    if inline_on_pseudo:
        tags.add("inline-label-on-pseudo")
    stats.count(case["ast"], multi_before_label or inline_on_pseudo, tags, sample_tag="program")


def case_strategy(max_lines=25):
    from hypothesis import strategies as st
    return st.builds(lambda a, t1, t2: {"ast": a, "tape": t1, "tape2": t2}, asmgen.program_ast(max_lines), asmgen.tape, asmgen.tape)


def corpus():
    d = [{"name": "arr", "type": "half", "values": [0x1234, 10, 999]}, {"name": "s", "type": "string", "string": "Hi"}]
    return [
        {"tape": [0], "tape2": [3, 1, 4, 1, 5, 9, 2, 6], "ast": {"data": d, "data_first": True, "text_directive": True, "text": [
            {"ins": ["li", 1, 100000], "inline": "lbl", "form": 0}, {"ins": ["lh", 2, {"var": "arr", "idx": 2}], "inline": None, "form": 0},
            {"label": "mid"}, {"ins": ["beq", 1, 2, {"label": "lbl", "off": None}], "inline": None, "form": 0},
            {"ins": ["jal", 1, {"label": "end", "off": 4}], "inline": None, "form": 0}, {"ins": ["sw", 2, {"var": "arr", "idx": None}, 6], "inline": "st", "form": 0},
            {"ins": ["bne", 0, 0, {"imm": -8}], "inline": None, "form": 0}, {"ins": ["jal", 0, {"abs": 8}], "inline": None, "form": 0},
            {"ins": ["sb", 3, 4, -1], "inline": None, "form": 1}, {"label": "end"}]}},
    ]


def shards(tier, seed):
    n, k = (300, 4) if tier == "quick" else (2500, 16)
    items = [{"n": n, "seed": seed * 1000 + i, "lines": 25 if i % 2 else 12} for i in range(k)]
    total = len(grid_lines())
    step = 600
    items += [{"what": "grid", "lo": lo, "hi": min(total, lo + step)} for lo in range(0, total, step)]
    items += [{"what": "fit", "n": 4096}] + ([{"what": "fit", "n": 4095}] if tier != "quick" else [])
    return items


def run_shard(item, stats):
    if item.get("what") == "grid":
        core.run_cases([{"kind": "grid", "lo": item["lo"], "hi": item["hi"]}], check, stats, core.known_matcher(ID, known_match))
        stats.exhaustive_parts.append("register-name x operand-position grid and number-spelling grid (deterministic)")
        return
    if item.get("what") == "fit":
        return core.run_cases([{"kind": "fit", "n": item["n"]}], check, stats, core.known_matcher(ID, known_match))
    core.hyp_search(case_strategy(item["lines"]), check, stats, item["n"], item["seed"], core.known_matcher(ID, known_match))
