"""C07 — five-stage retire times and cycle count follow the documented schedule (vf.ref.pipe), and every step
advances the cycle counter by exactly 1 + the miss penalties incurred in that step.

case kinds
  {"kind": "prog",  "prog", "regs", "mem", "max"}                 schedule vs. implementation, no caches
  {"kind": "indep", "n": k, "prog", "regs", "mem"}                n mutually independent instructions -> n+4 cycles
  {"kind": "cache", "prog", "regs", "mem", "max", "dcache", "icache", "mode"}   per-step cycle identity
"""
from __future__ import annotations

from hypothesis import strategies as st

from vf import core, pipedrive, rvdrive
from vf.core import Violation
from vf.gen import cachecfg, rvprog
from vf.props import c02
from vf.ref import frontend, pipe, rv32
from vf.ref.cache import RefCache
from vf.ref.bytestore import riscv_store

ID = "C07"
LEVEL = "exploration"
TECHNIQUE = "property-based testing against a closed-form reference schedule of the documented pipeline (independent model), small-scope exhaustive over the hazard alphabet, metamorphic n+4 rule, per-step cycle-accounting identity"
RULE = ("programs x initial states of C02 (alphabet sequences exhaustively up to the stated length + Hypothesis programs): "
        "for every step s of the real five-stage run the address retiring in step s must be the instruction the reference "
        "schedule assigns W = s (or none), the run must end at W[last] (or fault in the predicted cycle at the predicted "
        "address) and cycles == steps; straight-line programs of n mutually independent instructions take n+4; with caches "
        "(both caches, both modes) each step adds exactly 1 + d_penalty*d_misses + i_penalty*i_misses. non-trivial = the "
        "reference schedule contains an interlock, a redirect or an ecall drain, or a miss with penalty>0 occurred; "
        "distinct = hash(case)"
        ' The per-step identity is also checked on a simulation object that executed part of another program and was lo'
        'aded again.'
        ' A structural cycle-by-cycle model of the latches (cross-checked against the closed-form schedule on every cas'
        'e) predicts the complete fetch sequence incl. squashed fetches: the fetch log must equal it, and with caches t'
        'he cycle total must equal schedule + penalties of a reference instruction cache fed that sequence + measured d'
        'ata-cache misses.')
ASSUMPTIONS = [
    "the reference schedule (DESIGN.md §1.2) is the statement of 'the documented pipeline'",
    "with miss penalties the step index of each retirement is compared; the counter is compared against steps+penalties",
]
B = rvprog.B
M32 = 0xFFFFFFFF


def _model(case, detect=True, max_instr=400):
    program = {4 * i: ins for i, ins in enumerate(case["prog"])}
    store = riscv_store()
    for a, v in (case.get("mem") or {}).items():
        store.write(int(a), 4, v & M32)
    return pipe.simulate(program, case.get("regs"), store, detect, max_instr)


def check_schedule(case, stats, detect=True, V=Violation, dcache=None, icache=None):
    mx = case.get("max", 300)
    ref = _model(case, detect, mx)
    if ref.fault is not None:
        horizon = ref.fault[1]
    elif ref.truncated:
        horizon = ref.recs[-1].W
    else:
        horizon = ref.total_cycles
    fetched = []

    def log_fetches(sim):
        im = sim.state.instruction_memory
        orig = im.read_instruction

        def rec(address, *a, **k):
            fetched.append(address)
            return orig(address, *a, **k)

        im.read_instruction = rec      # instance-level recording proxy (harness side)

    f = pipedrive.run(case, "five", detect, dcache, icache, max_steps=horizon + (0 if (ref.truncated or ref.fault) else 8),
                      regs_each_step=not detect, sim_hook=log_fetches if detect else None)
    cached = bool(dcache or icache)
    exp = ref.retire_by_step()
    got = dict(zip(f.retire_step, f.pcs))
    for s in range(1, min(f.steps, horizon) + 1):
        if s == f.steps and f.end == "fault":
            break
        if got.get(s) != exp.get(s):
            raise V("retire-cycle", case, f"step {s}: implementation retires {got.get(s)!r}, schedule says {exp.get(s)!r} "
                    f"(schedule {[(hex(r.pc), r.W) for r in ref.recs[:12]]})")
    if ref.fault is not None:
        if f.end != "fault":
            raise V("fault-cycle", case, f"schedule: fault at {ref.fault[0]:#x} in cycle {ref.fault[1]}; implementation ended '{f.end}' after {f.steps} steps")
        if f.steps != ref.fault[1] or f.fault_addr != ref.fault[0]:
            raise V("fault-cycle", case, f"schedule: fault at {ref.fault[0]:#x} in cycle {ref.fault[1]}; implementation: {f.fault_addr!r} in step {f.steps}")
    elif not ref.truncated:
        if f.end != "done" or f.steps != ref.total_cycles:
            raise V("total-cycles", case, f"schedule ends after {ref.total_cycles} cycles; implementation '{f.end}' after {f.steps} steps")
        if not cached and f.metrics["cycles"] != ref.total_cycles:
            raise V("cycle-counter", case, f"cycles counter {f.metrics['cycles']} != {ref.total_cycles}")
    if not cached:      # with caches the counter additionally holds the penalties (judged by the per-step identity)
        for s, c in enumerate(f.cycles_after, 1):
            if c != s:
                raise V("cycle-counter", case, f"after step {s} the cycle counter reads {c}")
    if detect and ref.fault is None and not ref.truncated and isinstance(case["prog"], list):
        # the fetch side of the documented pipeline, squashed fetches included (structural model, cross-checked against
        # the closed-form schedule first: two formulations of one pipeline must agree before either judges the code)
        fe = frontend.simulate(case["prog"], [r.e for r in ref.recs])
        if fe["cycles"] != ref.total_cycles or any(fe["retire"].get(k) != r.W for k, r in enumerate(ref.recs)):
            raise core.HarnessError(f"reference models disagree on {case['prog']}: structural {fe['cycles']} cycles, closed form {ref.total_cycles}")
        if fetched != fe["fetches"]:
            d = next((i for i, (x, y) in enumerate(zip(fetched, fe["fetches"])) if x != y), min(len(fetched), len(fe["fetches"])))
            raise V("fetch-sequence", case, f"{len(fetched)} fetches, the documented pipeline performs {len(fe['fetches'])}; first difference at fetch #{d}: "
                    f"{fetched[d:d + 4]} vs {fe['fetches'][d:d + 4]}")
        if cached:
            imiss = 0
            if icache:
                rc = RefCache(icache["idx"], icache["blk"], icache["ways"], icache["repl"], "ro")
                imiss = sum(0 if rc.read(a) else 1 for a in fe["fetches"])
            dmiss = (int(f.dstats["accesses"]) - int(f.dstats["hits"])) if (dcache and f.dstats) else 0
            want = ref.total_cycles + (icache["pen"] * imiss if icache else 0) + (dcache["pen"] * dmiss if dcache else 0)
            if f.metrics["cycles"] != want:
                raise V("total-cycles-with-penalties", case, f"cycle counter {f.metrics['cycles']}; documented pipeline: {ref.total_cycles} cycles + {imiss} instruction-cache "
                        f"misses x {icache['pen'] if icache else 0} + {dmiss} data-cache misses x {dcache['pen'] if dcache else 0} = {want}")
    return ref, f


def check(case, stats):
    kind = case["kind"]
    if kind in ("prog", "indep"):
        ref, f = check_schedule(case, stats)
        if kind == "indep":
            n = len(case["prog"])
            # (an empty program is done immediately - C13 - so the n+4 law is stated for n >= 1)
            if n >= 1 and (f.end != "done" or f.steps != n + 4 or f.metrics["cycles"] != n + 4):
                raise Violation("n-plus-4", case, f"{n} independent instructions took {f.steps} steps / {f.metrics['cycles']} cycles")
        tags = set()
        redirects = sum(1 for r in ref.recs if r.e.redirect)
        if ref.interlocks:
            tags.add("interlock")
        if redirects:
            tags.add("redirect")
        if ref.drains:
            tags.add("ecall-drain")
        if ref.fault:
            tags.add("fault")
        if ref.interlocks and redirects:
            tags.add("interlock+redirect")
        if any(r.hazard and r.i and ref.recs[r.i - 1].e.redirect for r in ref.recs):
            tags.add("interlock-right-after-redirect")
        tags.add("kind:" + kind)
        stats.count(case, bool(ref.interlocks or redirects or ref.drains), tags,
                    sample_tag=kind + (":alpha" if case.get("alpha") else ""))
    else:
        check_cache(case, stats)


WARM = "addi x5, x0, 1\naddi x6, x0, 2\nlui x8, 4\nsw x5, 0(x8)\nlw x6, 0(x8)\naddi x7, x0, 3\nsw x6, 64(x8)\naddi x9, x0, 4"


def check_cache(case, stats):
    """Per step: delta(cycles) == 1 + d_pen * delta(d_misses) + i_pen * delta(i_misses), in either mode; and in
    five-stage mode the step in which each instruction retires still follows the schedule (penalties are counted
    cycles, not extra steps)."""
    from architecture_simulator.simulation.runtime_errors import InstructionExecutionException
    if case["mode"] == "five" and not case.get("reuse"):
        def V(clause, c, detail):
            return Violation("cached-" + clause, c, detail)
        check_schedule(case, stats, True, V, case.get("dcache"), case.get("icache"))
    sim = rvdrive.new_sim(case["mode"], True, case.get("dcache"), case.get("icache"))
    if case.get("reuse"):
        # the simulation object has already run (part of) another program and is loaded again: the accounting identity
        # is model-free and holds for every step of every simulation, whatever it did before
        try:
            sim.load_program(WARM)
            for _ in range(case["reuse"]):
                if not sim.is_done():
                    sim.step()
            sim.load_program("nop\nnop")
        except Exception as ex:       # a fixed, valid straight-line program: nothing in it may fail
            raise Violation("valid-program-fails", case, f"warm-up program on the simulation to be reused: {type(ex).__name__}: {ex!r}")
    rvdrive.load(sim, case["prog"], case.get("regs"), case.get("mem"))
    dpen = (case.get("dcache") or {}).get("pen", 0)
    ipen = (case.get("icache") or {}).get("pen", 0)

    def misses():
        d = sim.state.memory.get_cache_stats()
        i = sim.state.instruction_memory.get_cache_stats()
        dm = (int(d["accesses"]) - int(d["hits"])) if d else 0
        im = (int(i["accesses"]) - int(i["hits"])) if i else 0
        return dm, im

    pm = sim.state.performance_metrics
    steps = 0
    pen_misses = 0
    total_misses = 0
    while not sim.is_done() and steps < case.get("max", 300):
        c0 = pm.cycles
        d0, i0 = misses()
        try:
            sim.step()
        except InstructionExecutionException:
            break
        steps += 1
        d1, i1 = misses()
        exp = 1 + dpen * (d1 - d0) + ipen * (i1 - i0)
        if pm.cycles - c0 != exp:
            raise Violation("step-cycle-delta", case, f"step {steps}: cycles advanced by {pm.cycles - c0}, expected 1 + {dpen}*{d1 - d0} + {ipen}*{i1 - i0}")
        pen_misses += (d1 - d0) * (dpen > 0) + (i1 - i0) * (ipen > 0)
        total_misses += (d1 - d0) + (i1 - i0)
    tags = {"kind:cache", "mode:" + case["mode"]}
    if case.get("reuse"):
        tags.add("reused-simulation")
    if case.get("dcache"):
        tags.add("dcache:" + case["dcache"]["type"])
    if case.get("icache"):
        tags.add("icache")
    stats.count(case, pen_misses > 0, tags, sample_tag="cache:" + case["mode"])


# ------------------------------------------------------------------------------------------------------------
@st.composite
def indep_case(draw):
    """n instructions that neither read a register written by an earlier one nor transfer control."""
    n = draw(st.integers(0, 60))
    prog = []
    written = set()
    for k in range(n):
        kind = draw(st.sampled_from(["alu", "alui", "lui", "load", "store", "x0"]))
        free = [r for r in range(1, 32) if r not in written]
        srcs = st.sampled_from([0] + free[:10])
        rd = draw(st.sampled_from([r for r in range(1, 32)]))
        if kind == "alu":
            ins = [draw(st.sampled_from(rv32.R_OPS)), rd, draw(srcs), draw(srcs)]
        elif kind == "alui":
            ins = [draw(st.sampled_from(rv32.I_OPS)), rd, draw(srcs), draw(rvprog.imm12)]
        elif kind == "lui":
            ins = ["lui", rd, draw(rvprog.imm20)]
        elif kind == "load":
            ins = ["lw", rd, 0, 0] if False else ["lw", rd, 31 if 31 not in written else 0, 4 * draw(st.integers(0, 8))]
            if ins[2] == 0:
                ins = ["addi", rd, 0, 1]
        elif kind == "store":
            ins = ["sw", 31 if 31 not in written else 0, draw(srcs), 4 * draw(st.integers(0, 8))]
            if ins[1] == 0:
                ins = ["addi", 0, 0, 0]
        else:
            ins = ["addi", 0, draw(srcs), 3]
        d = rv32.dest(ins)
        if d == 31:
            ins = ["addi", 0, 0, 0]
            d = 0
        if d:
            written.add(d)
        prog.append(ins)
    return {"kind": "indep", "prog": prog, "regs": {"31": B, "1": 5, "2": 7}, "mem": {}, "max": 200}


def cache_case():
    return st.builds(
        lambda c, d, i, m, r: dict(c, kind="cache", dcache=d, icache=i, mode=m, max=250, reuse=r),
        st.one_of(rvprog.program_case(14, aligned_only=True), rvprog.mem_heavy_case(18)),
        cachecfg.maybe(st.one_of(cachecfg.cache_config(), cachecfg.small_cache_config())),
        cachecfg.maybe(st.one_of(cachecfg.cache_config(types=("wb",)), cachecfg.small_cache_config())),
        st.sampled_from(["single", "five"]), st.sampled_from([0, 0, 0, 1, 3, 6, 12]))


def prog_case(max_len, max_steps):
    return rvprog.program_case(max_len).map(lambda c: dict(c, kind="prog", max=max_steps))


def alpha_cases(length, part, parts):
    for c in c02.alpha_cases(length, part, parts):
        yield dict(c, kind="prog")


def corpus():
    out = [dict(c, kind="prog") for c in c02.corpus()]
    out.append({"kind": "indep", "prog": [], "regs": {}, "mem": {}, "max": 10})
    out.append({"kind": "indep", "prog": [["addi", 1, 0, 1], ["addi", 2, 0, 2], ["addi", 3, 0, 3]], "regs": {}, "mem": {}, "max": 20})
    out.append({"kind": "cache", "mode": "five", "max": 100, "dcache": {"idx": 0, "blk": 0, "ways": 1, "type": "wb", "repl": "lru", "pen": 3},
                "icache": {"idx": 1, "blk": 1, "ways": 1, "type": "wb", "repl": "lru", "pen": 2},
                "prog": [["lw", 1, 8, 0], ["lw", 2, 8, 4], ["sw", 8, 1, 8], ["lw", 3, 8, 0], ["beq", 0, 0, -16]],
                "regs": {"8": B}, "mem": {str(B): 1}})
    return out


def shards(tier, seed):
    items = []
    if tier == "quick":
        for L in (1, 2, 3):
            items.append({"what": "alpha", "len": L, "part": 0, "parts": 1})
        for p in range(4):
            items.append({"what": "alpha", "len": 4, "part": p, "parts": 4})
        for i in range(4):
            items.append({"what": "prog", "n": 250, "len": 14, "max": 200, "seed": seed * 1000 + i})
        items.append({"what": "indep", "n": 150, "seed": seed * 1000 + 50})
        for i in range(2):
            items.append({"what": "cache", "n": 200, "seed": seed * 1000 + 60 + i})
    else:
        for L in (1, 2, 3, 4):
            items.append({"what": "alpha", "len": L, "part": 0, "parts": 1})
        for p in range(32):
            items.append({"what": "alpha", "len": 5, "part": p, "parts": 32})
        for p in range(256):
            items.append({"what": "alpha", "len": 6, "part": p, "parts": 256})
        for i in range(32):
            items.append({"what": "prog", "n": 1500, "len": 14 if i % 2 else 28, "max": 400, "seed": seed * 1000 + i})
        for i in range(4):
            items.append({"what": "indep", "n": 800, "seed": seed * 1000 + 50 + i})
        for i in range(16):
            items.append({"what": "cache", "n": 1200, "seed": seed * 1000 + 60 + i})
    return items


def run_shard(item, stats):
    km = core.known_matcher(ID, globals().get("known_match"))
    w = item["what"]
    if w == "alpha":
        core.run_cases(alpha_cases(item["len"], item["part"], item["parts"]), check, stats, km, distinct=True)
        stats.exhaustive_parts.append(f"all {len(c02.ALPHABET)}^{item['len']} alphabet sequences of length {item['len']}")
    elif w == "prog":
        core.hyp_search(prog_case(item["len"], item["max"]), check, stats, item["n"], item["seed"], km)
    elif w == "indep":
        core.hyp_search(indep_case(), check, stats, item["n"], item["seed"], km)
    else:
        core.hyp_search(cache_case(), check, stats, item["n"], item["seed"], km)
