#!/bin/sh
# Run every quick check at several VERIF_SEED values on the current tree; print anything that is not a clean exit 0.
cd "$(dirname "$0")/.." || exit 2
seeds="${*:-2 3 4}"
bad=0
for s in $seeds; do
  for p in C01 C02 C03 C04 C05 C06 C07 C08 C09 C10 C11 C12 C13 C14 C15 C16 C17 C18 C19 C20; do
    out=$(VERIF_SEED=$s VERIF_OUT=/tmp/vf_stab_$$ ./check $p quick 2>&1); rc=$?
    if [ $rc -ne 0 ]; then bad=1; echo "seed $s $p exit $rc"; echo "$out" | tail -5; fi
    echo "$out" | grep -E "^$p quick" | cut -c1-150
  done
done
rm -rf /tmp/vf_stab_$$
exit $bad
