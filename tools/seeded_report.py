#!/venv/bin/python
"""Render seeded/*/meta.json as SEEDED.md (which checks catch which independently written breaking changes)."""
import json, os
V = os.path.dirname(os.path.dirname(os.path.abspath(__file__)))
rows = []
for d in sorted(os.listdir(os.path.join(V, "seeded"))):
    mp = os.path.join(V, "seeded", d, "meta.json")
    if not os.path.exists(mp):
        continue
    m = json.load(open(mp))
    c = m.get("confirmation", {})
    checks = c.get("checks", {})
    det = [f"{k} ({v['first_clause'].split(' detail=')[0].replace('clause=', '')})" for k, v in checks.items() if v.get("detected")]
    miss = [k for k, v in checks.items() if not v.get("detected")]
    note = m.get("strengthened", "") or m.get("not_detected", "")
    rows.append((d, m.get("property", d[:3]), (m.get("summary") or "").replace("|", "/").replace("\n", " ")[:230],
                 (m.get("needs_to_manifest") or "").replace("|", "/").replace("\n", " ")[:230],
                 "yes" if c.get("verified") else "NO", "; ".join(det) or "-", ", ".join(miss) or "-", note))
lines = ["# Independently seeded breaking changes vs. the checks", "",
         "Each change was written by a fresh sub-agent that saw only the text of one property and its own scratch worktree of the repository",
         "(nothing from /verif). `confirmed` = I re-ran, in a scratch worktree: the demonstration passes on the clean tree, the patch applies, the",
         "repository's 242 tests still pass, the demonstration fails on the patched tree (`tools/seeded_verify.py`). Then the listed checks ran",
         "(quick tier, seed 1, regression corpus + generated search) with `VERIF_REPO=<patched tree>`. `other checks tried` lists checks of",
         "*neighbouring* properties that were also run and — legitimately or not — stayed quiet.", "",
         "| change | attacks | what it does | needs to manifest | confirmed | detected by (first clause) | other checks tried, quiet | note |", "|---|---|---|---|---|---|---|---|"]
own_det = 0
for r in rows:
    lines.append("| " + " | ".join(r) + " |")
    own_det += any(x.startswith(r[1] + " ") for x in r[5].split("; "))
nd = [r[0] for r in rows if r[7].startswith("NOT DETECTED")]
lines += ["", f"{len(rows)} changes, {sum(1 for r in rows if r[4] == 'yes')} confirmed; {own_det} detected by the check of the property they attack; "
          f"{len(nd)} not detected and explained in the note column ({', '.join(nd)})."]
open(os.path.join(V, "SEEDED.md"), "w").write("\n".join(lines) + "\n")
print(lines[-1])
