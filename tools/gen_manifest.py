#!/venv/bin/python
"""Regenerate MANIFEST.json from the property modules present in vf/props (run from /verif)."""
import importlib, json, os, sys
V = os.path.dirname(os.path.dirname(os.path.abspath(__file__)))
sys.path.insert(0, V)
props = [json.loads(l) for l in open(os.path.join(V, "properties.jsonl"))]
checks, na = [], []
for p in props:
    pid = p["id"]
    path = os.path.join(V, "vf", "props", pid.lower() + ".py")
    if not os.path.exists(path):
        na.append({"property_id": pid, "reason": "check not built yet (work in progress); see DESIGN.md section for " + pid})
        continue
    src = open(path, encoding="utf-8").read()
    ns = {}
    # module-level string constants only (no repo import needed)
    import ast
    tree = ast.parse(src)
    for node in tree.body:
        if isinstance(node, ast.Assign) and len(node.targets) == 1 and isinstance(node.targets[0], ast.Name) \
                and node.targets[0].id in ("LEVEL", "TECHNIQUE", "LEVEL_TEXT", "LEVEL_NOTE", "DESIGN_REF"):
            ns[node.targets[0].id] = ast.literal_eval(node.value)
    checks.append({
        "property_id": pid,
        "quick_cmd": f"./check {pid} quick",
        "thorough_cmd": f"./check {pid} thorough",
        "evidence_file": f"/verif/evidence/{pid}.json",
        "replay_cmd_template": f"./check {pid} quick --replay {{path}}",
        "engine": "vf",
        "level_claimed": {"category": ns.get("LEVEL", "exploration"),
                          "text": ns.get("LEVEL_TEXT", "generated-input search against an independent reference model"),
                          "design_ref": ns.get("DESIGN_REF", "DESIGN.md §2 " + pid)},
        "level_note": ns.get("LEVEL_NOTE", "trusted: CPython, Hypothesis, the reference models under vf/ref"),
        "technique": ns.get("TECHNIQUE", "property-based testing (Hypothesis) against a reference model"),
    })
m = {
    "version": 1,
    "setup_cmd": "sh tools/setup.sh",
    "hooks": {"guard": "ARCHSIM_VERIF", "enable": "no hooks are needed: checks import /repo's working tree directly (VERIF_REPO overrides the path)",
              "baseline_off_cmd": "cd /repo && /venv/bin/python -m pytest -q -p no:cacheprovider",
              "source_commits": [], "add_only": True},
    "engines": [{"name": "vf", "path": "/verif/vf", "serves_properties": [c["property_id"] for c in checks],
                 "kind_free_text": "Hypothesis 6.168 property-based testing + exhaustive enumeration of finite sub-domains against independent reference models; JSON replay files"}],
    "checks": checks,
    "not_applicable": na,
    "notes": "All checks: cwd=/verif, code under test imported from /repo's working tree, VERIF_SEED honoured, exit 0/1/2 as in vf/main.py.",
}
json.dump(m, open(os.path.join(V, "MANIFEST.json"), "w"), indent=1)
print("checks:", len(checks), "not_applicable:", len(na))
