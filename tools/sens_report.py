#!/venv/bin/python
"""Render mutants/RESULTS.json (written by tools/sensitivity.py --write) as SENSITIVITY.md."""
import json, os
V = os.path.dirname(os.path.dirname(os.path.abspath(__file__)))
res = json.load(open(os.path.join(V, "mutants", "RESULTS.json")))
muts = {}
for f in sorted(os.listdir(os.path.join(V, "mutants"))):
    if f.endswith(".json") and f != "RESULTS.json":
        for m in json.load(open(os.path.join(V, "mutants", f))):
            muts[f"{f[:-5]}/{m['name']}"] = m
lines = ["# Sensitivity matrix — hand-written semantic mutants vs. the checks", "",
         "Produced by `tools/sensitivity.py all --tests --no-corpus --write` (each mutant applied to a scratch copy of the repository;",
         "the property's check runs with `VERIF_NO_CORPUS=1`, i.e. the **generated search alone** must find it; `tests` = does the",
         "repository's own 242-test suite still pass on the mutant). `EQUIV` = the mutant turned out to be behaviourally equivalent",
         "for the property (reason in the mutant file).", "",
         "| property | mutant | tier | repository tests | verdict | first failing clause |", "|---|---|---|---|---|---|"]
tot = det = eq = surv_tests = 0
for key in sorted(res):
    r = res[key]
    pid, name = key.split("/", 1)
    m = muts.get(key, {})
    verdict = "DETECTED" if r["detected"] else ("EQUIV" if m.get("expect") == "equivalent" else "MISSED")
    tot += 1; det += r["detected"]; eq += verdict == "EQUIV"
    tests = {True: "pass", False: "FAIL", None: "-"}[r.get("tests_pass")]
    surv_tests += (r.get("tests_pass") is True and r["detected"])
    clause = (r.get("clause") or "").replace("|", "\\|")[:110]
    lines.append(f"| {pid} | {name} | {r.get('tier','quick')} | {tests} | {verdict} | {clause} |")
lines += ["", f"{det} of {tot} mutants detected, {eq} equivalent, {tot - det - eq} missed; {surv_tests} of the detected mutants pass the repository's own test suite."]
open(os.path.join(V, "SENSITIVITY.md"), "w").write("\n".join(lines) + "\n")
print(lines[-1])
