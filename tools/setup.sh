#!/bin/sh
# Offline setup: make sure Hypothesis is importable by /venv's python (it is pre-installed; the wheelhouse is the
# fallback) and try to add Atheris for the optional C15 fuzz engine (absence is tolerated and reported in evidence).
set -u
cd "$(dirname "$0")/.." || exit 1
if ! /venv/bin/python -c "import hypothesis" 2>/dev/null; then
  /venv/bin/pip install --no-index --find-links /opt/veriftools/wheels hypothesis || exit 1
fi
if ! PYTHONPATH="$PWD/.deps" /venv/bin/python -c "import atheris" 2>/dev/null; then
  /venv/bin/pip install --no-index --no-deps --find-links /opt/veriftools/wheels --target "$PWD/.deps" atheris >/dev/null 2>&1 \
    || echo "setup: atheris not installed (optional)"
fi
/venv/bin/python -c "import hypothesis, pyparsing, fixedint; print('setup ok: hypothesis', hypothesis.__version__)"
