#!/venv/bin/python
"""Mutation sensitivity: apply one small semantic change to a scratch copy of the repository and confirm that the
property's check (quick tier unless --tier) reports a violation, and (optionally) that the repository's own tests
still pass on the mutant — i.e. that it is a change "that still compiles and passes the existing tests".

usage: tools/sensitivity.py <ID>[,<ID>...]|all [--only NAME] [--tests] [--tier quick|thorough] [--jobs N] [--write]

Mutants live in mutants/<ID>.json: [{"name":..., "file": "architecture_simulator/...", "old": "...", "new": "...",
"count": 1, "note": "..."}]; `old` must occur exactly `count` times in the file (default 1).
Scratch copies are made under $TMPDIR (default /tmp) and removed afterwards.
"""
from __future__ import annotations

import json
import os
import shutil
import subprocess
import sys
import tempfile
from concurrent.futures import ThreadPoolExecutor

NO_CORPUS = "--no-corpus" in sys.argv
VERIF = os.path.dirname(os.path.dirname(os.path.abspath(__file__)))
REPO = "/repo"


def make_scratch(mut):
    d = tempfile.mkdtemp(prefix="vfmut_")
    shutil.copytree(os.path.join(REPO, "architecture_simulator"), os.path.join(d, "architecture_simulator"),
                    ignore=shutil.ignore_patterns("__pycache__"))
    shutil.copytree(os.path.join(REPO, "tests"), os.path.join(d, "tests"), ignore=shutil.ignore_patterns("__pycache__"))
    for f in ("pyproject.toml",):
        if os.path.exists(os.path.join(REPO, f)):
            shutil.copy(os.path.join(REPO, f), d)
    edits = mut.get("edits") or [mut]
    for e in edits:
        p = os.path.join(d, e["file"])
        s = open(p, encoding="utf-8").read()
        cnt = s.count(e["old"])
        if cnt != e.get("count", 1):
            shutil.rmtree(d, ignore_errors=True)
            raise SystemExit(f"mutant {mut['name']}: 'old' occurs {cnt} times in {e['file']} (expected {e.get('count', 1)})")
        s = s.replace(e["old"], e["new"])
        open(p, "w", encoding="utf-8").write(s)
    return d


def run_one(pid, mut, tier, tests):
    tier = mut.get("tier", tier)
    d = make_scratch(mut)
    try:
        env = dict(os.environ, VERIF_REPO=d, VERIF_OUT=d, PYTHONDONTWRITEBYTECODE="1")
        env.setdefault("VERIF_SEED", "1")
        if NO_CORPUS:
            env["VERIF_NO_CORPUS"] = "1"
        r = subprocess.run([os.path.join(VERIF, "check"), pid, tier], env=env, capture_output=True, text=True)
        detected = r.returncode == 1 and "VIOLATION property=" in r.stdout
        clause = ""
        for line in r.stdout.splitlines():
            if line.strip().startswith("clause="):
                clause = line.strip()[:160]
                break
        tests_ok = None
        if tests:
            env2 = dict(os.environ, PYTHONPATH=d, PYTHONDONTWRITEBYTECODE="1")
            try:
                t = subprocess.run(["/venv/bin/python", "-m", "pytest", "-q", "-x", "-p", "no:cacheprovider",
                                    "--timeout=60", "tests"], cwd=d, env=env2, capture_output=True, text=True, timeout=300)
                tests_ok = t.returncode == 0
            except subprocess.TimeoutExpired:
                tests_ok = False
        return {"property": pid, "mutant": mut["name"], "detected": detected, "expect": mut.get("expect"), "exit": r.returncode, "clause": clause,
                "tests_pass": tests_ok, "tail": "" if detected else r.stdout[-600:] + r.stderr[-600:]}
    finally:
        shutil.rmtree(d, ignore_errors=True)


def main(argv):
    if not argv:
        print(__doc__)
        return 2
    ids = argv[0]
    tier = argv[argv.index("--tier") + 1] if "--tier" in argv else "quick"
    only = argv[argv.index("--only") + 1] if "--only" in argv else None
    jobs = int(argv[argv.index("--jobs") + 1]) if "--jobs" in argv else 4
    tests = "--tests" in argv
    mdir = os.path.join(VERIF, "mutants")
    if ids == "all":
        pids = sorted(f[:-5] for f in os.listdir(mdir) if f.endswith(".json") and f[0] == "C" and f[1:3].isdigit())
    else:
        pids = [p.upper() for p in ids.split(",")]
    work = []
    for pid in pids:
        for mut in json.load(open(os.path.join(mdir, pid + ".json"), encoding="utf-8")):
            if only and mut["name"] != only:
                continue
            work.append((pid, mut))
    with ThreadPoolExecutor(jobs) as ex:
        results = list(ex.map(lambda w: run_one(w[0], w[1], tier, tests), work))
    missed = 0
    for r in results:
        status = "DETECTED" if r["detected"] else ("EQUIV   " if r.get("expect") == "equivalent" else "MISSED  ")
        t = "" if r["tests_pass"] is None else (" tests=pass" if r["tests_pass"] else " tests=FAIL")
        print(f"{status} {r['property']} {r['mutant']}{t} {r['clause']}")
        if not r["detected"] and r.get("expect") != "equivalent":
            missed += 1
            print("   ", r["tail"].replace("\n", "\n    "))
    print(f"{len(results) - missed}/{len(results)} mutants detected")
    if "--write" in argv:
        out = os.path.join(VERIF, "mutants", "RESULTS.json")
        prev = json.load(open(out)) if os.path.exists(out) else {}
        for r in results:
            prev[f"{r['property']}/{r['mutant']}"] = {k: r[k] for k in ("detected", "clause", "tests_pass")} | {"tier": tier}
        json.dump(prev, open(out, "w"), indent=1, sort_keys=True)
    return 0 if missed == 0 else 1


if __name__ == "__main__":
    sys.exit(main(sys.argv[1:]))
