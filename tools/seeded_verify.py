#!/venv/bin/python
"""Confirm an independently written breaking change and run the checks against it.

usage: tools/seeded_verify.py <name> <patch.diff> <demo.py> <meta.json> <ID>[,<ID>...] [--tier quick|thorough] [--keep]

Steps (all in a scratch git worktree of /repo's HEAD under /tmp, removed afterwards):
  1. demo on the clean tree            -> must exit 0
  2. git apply patch; repository tests -> must pass (242)
  3. demo on the patched tree          -> must exit non-zero
  4. VERIF_REPO=<patched tree> ./check <ID> <tier> for every listed property (generated search + corpus)
Writes /verif/seeded/<name>/{patch.diff, demo.py, meta.json} (meta.json extended with what was run and observed).
"""
from __future__ import annotations

import json
import os
import shutil
import subprocess
import sys
import tempfile

VERIF = os.path.dirname(os.path.dirname(os.path.abspath(__file__)))


def sh(cmd, cwd=None, env=None, timeout=3600):
    r = subprocess.run(cmd, cwd=cwd, env=env, capture_output=True, text=True, timeout=timeout)
    return r.returncode, r.stdout + r.stderr


def main(argv):
    name, patch, demo, meta_path, ids = argv[:5]
    tier = argv[argv.index("--tier") + 1] if "--tier" in argv else "quick"
    ids = ids.split(",")
    wt = tempfile.mkdtemp(prefix="vfseed_")
    os.rmdir(wt)
    rc, out = sh(["git", "-C", "/repo", "worktree", "add", "-q", "--detach", wt, "HEAD"])
    if rc:
        print(out)
        return 2
    result = {"verified": False}
    try:
        env = dict(os.environ, PYTHONPATH=wt, PYTHONDONTWRITEBYTECODE="1")
        shutil.copy(demo, os.path.join(wt, "demo_seeded.py"))
        rc_clean, out_clean = sh(["/venv/bin/python", "demo_seeded.py"], cwd=wt, env=env, timeout=600)
        rc_apply, out_apply = sh(["git", "apply", os.path.abspath(patch)], cwd=wt)
        if rc_apply:
            print("patch does not apply:", out_apply)
            return 2
        rc_tests, out_tests = sh(["/venv/bin/python", "-m", "pytest", "-q", "-p", "no:cacheprovider", "--timeout=120", "tests"], cwd=wt, env=env, timeout=1800)
        rc_bad, out_bad = sh(["/venv/bin/python", "demo_seeded.py"], cwd=wt, env=env, timeout=600)
        result.update({"demo_exit_clean_tree": rc_clean, "demo_exit_patched_tree": rc_bad, "repo_tests_pass_on_patched_tree": rc_tests == 0,
                       "repo_tests_tail": out_tests.strip().splitlines()[-1] if out_tests.strip() else ""})
        result["verified"] = rc_clean == 0 and rc_bad != 0 and rc_tests == 0
        checks = {}
        for pid in ids:
            outdir = tempfile.mkdtemp(prefix="vfseed_out_")
            env2 = dict(os.environ, VERIF_REPO=wt, VERIF_OUT=outdir)
            env2.setdefault("VERIF_SEED", "1")
            rc_c, out_c = sh([os.path.join(VERIF, "check"), pid, tier], env=env2, timeout=1500 if tier == "quick" else 7200)
            clause = next((l.strip() for l in out_c.splitlines() if l.strip().startswith("clause=")), "")
            checks[pid] = {"tier": tier, "exit": rc_c, "detected": rc_c == 1 and "VIOLATION property=" in out_c, "first_clause": clause[:300]}
            # keep the (shrunk) replay of the first violation next to the seeded change
            rdir = os.path.join(outdir, "replays")
            if os.path.isdir(rdir) and os.listdir(rdir):
                dst = os.path.join(VERIF, "seeded", name)
                os.makedirs(dst, exist_ok=True)
                first = sorted(os.listdir(rdir))[0]
                shutil.copy(os.path.join(rdir, first), os.path.join(dst, f"replay-{pid}.json"))
            shutil.rmtree(outdir, ignore_errors=True)
        result["checks"] = checks
    finally:
        sh(["git", "-C", "/repo", "worktree", "remove", "--force", wt])
        shutil.rmtree(wt, ignore_errors=True)
    dst = os.path.join(VERIF, "seeded", name)
    os.makedirs(dst, exist_ok=True)
    for src, name_ in ((patch, "patch.diff"), (demo, "demo.py")):
        if os.path.abspath(src) != os.path.join(dst, name_):
            shutil.copy(src, os.path.join(dst, name_))
    meta = json.load(open(meta_path)) if os.path.exists(meta_path) else {}
    meta["confirmation"] = result
    meta["what_was_run"] = ("scratch worktree of /repo HEAD: demo on clean tree, git apply patch.diff, repository test suite, demo on patched tree, "
                            f"then VERIF_REPO=<patched tree> ./check <ID> {tier} for {ids}")
    json.dump(meta, open(os.path.join(dst, "meta.json"), "w"), indent=1)
    print(json.dumps(result, indent=1))
    return 0 if result["verified"] else 1


if __name__ == "__main__":
    sys.exit(main(sys.argv[1:]))
