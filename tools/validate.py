#!/opt/veriftools/pyvenv/bin/python
"""Validate MANIFEST.json and evidence/*.json against the schemas (uses the tooling venv's jsonschema)."""
import json, sys, glob, jsonschema
ok = True
m = json.load(open("/verif/MANIFEST.json"))
jsonschema.validate(m, json.load(open("/root/.vp/MANIFEST.schema.json")))
es = json.load(open("/root/.vp/EVIDENCE.schema.json"))
for f in sorted(glob.glob("/verif/evidence/*.json")):
    try:
        jsonschema.validate(json.load(open(f)), es)
    except Exception as e:
        ok = False; print("INVALID", f, str(e)[:300])
ids = {c["property_id"] for c in m["checks"]} | {n["property_id"] for n in m.get("not_applicable", [])}
allp = {json.loads(l)["id"] for l in open("/verif/properties.jsonl")}
if ids != allp: ok = False; print("manifest ids mismatch", allp ^ ids)
print("valid" if ok else "INVALID")
sys.exit(0 if ok else 1)
