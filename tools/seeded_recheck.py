#!/venv/bin/python
"""Re-run the attacked property's check (quick tier) against every kept seeded change on the CURRENT checks: a regression
run over seeded/*/ that only repeats step 4 of tools/seeded_verify.py (the confirmation of each change - demo, repository
tests - was done when it was added and does not depend on /verif).

usage: tools/seeded_recheck.py [--jobs N] [--only PREFIX] [--write]
Every change is applied to a scratch copy of /repo's package under $TMPDIR (removed afterwards).  Changes whose meta.json says
not_detected (judged outside the property) are expected to stay quiet; every other change is expected to be reported by the
check of the property it attacks or, where meta.json says so, by the neighbouring check named there.  Exit 1 if an
expectation fails.  --write stores the outcome in seeded/RECHECK.json.
"""
from __future__ import annotations

import json
import os
import shutil
import subprocess
import sys
import tempfile
from concurrent.futures import ThreadPoolExecutor

VERIF = os.path.dirname(os.path.dirname(os.path.abspath(__file__)))
NEIGHBOUR = {"C13-H": "C20", "C01-H": "C13", "C06-H": "C20", "C16-K": "C10", "C01-K": "C18"}     # reported by the check whose subject they are


def one(name):
    d = os.path.join(VERIF, "seeded", name)
    meta = json.load(open(os.path.join(d, "meta.json")))
    pid = NEIGHBOUR.get(name, meta.get("property", name[:3]))
    scratch = tempfile.mkdtemp(prefix="vfre_")
    try:
        shutil.copytree("/repo/architecture_simulator", os.path.join(scratch, "architecture_simulator"), ignore=shutil.ignore_patterns("__pycache__"))
        r = subprocess.run(["patch", "-p1", "-s", "-i", os.path.join(d, "patch.diff")], cwd=scratch, capture_output=True, text=True)
        if r.returncode:
            return name, pid, None, "patch does not apply: " + (r.stdout + r.stderr)[-200:]
        env = dict(os.environ, VERIF_REPO=scratch, VERIF_OUT=os.path.join(scratch, "out"), PYTHONDONTWRITEBYTECODE="1")
        env.setdefault("VERIF_SEED", "1")
        try:
            c = subprocess.run([os.path.join(VERIF, "check"), pid, "quick"], env=env, capture_output=True, text=True, timeout=1500)
        except subprocess.TimeoutExpired:
            return name, pid, None, "check did not finish within 1500 s"
        det = c.returncode == 1 and "VIOLATION property=" in c.stdout
        clause = next((l.strip() for l in c.stdout.splitlines() if l.strip().startswith("clause=")), "")[:160]
        if c.returncode == 2:
            return name, pid, None, "HARNESS-ERROR " + c.stdout[-300:]
        return name, pid, det, clause
    finally:
        shutil.rmtree(scratch, ignore_errors=True)


def main(argv):
    jobs = int(argv[argv.index("--jobs") + 1]) if "--jobs" in argv else 3
    only = argv[argv.index("--only") + 1] if "--only" in argv else ""
    names = sorted(n for n in os.listdir(os.path.join(VERIF, "seeded")) if os.path.isdir(os.path.join(VERIF, "seeded", n)) and n.startswith(only))
    with ThreadPoolExecutor(jobs) as ex:
        results = list(ex.map(one, names))
    bad = 0
    out = {}
    for name, pid, det, info in results:
        meta = json.load(open(os.path.join(VERIF, "seeded", name, "meta.json")))
        expect = not meta.get("not_detected")
        ok = det is not None and det == expect
        bad += not ok
        out[name] = {"check": pid, "detected": det, "expected": expect, "info": info}
        print(("ok   " if ok else "FAIL "), name, pid, "detected" if det else ("quiet" if det is False else "ERROR"), info[:110])
    print(f"{len(results) - bad}/{len(results)} as expected")
    if "--write" in argv:
        path = os.path.join(VERIF, "seeded", "RECHECK.json")
        prev = json.load(open(path)) if os.path.exists(path) else {}
        prev.update(out)
        json.dump(prev, open(path, "w"), indent=1, sort_keys=True)
    return 1 if bad else 0


if __name__ == "__main__":
    sys.exit(main(sys.argv[1:]))
